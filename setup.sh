#!/bin/bash
# Build dependency rlibs for single-file Verus (offline, from the cargo registry sources).
set -e
cd "$(dirname "$0")"
mkdir -p ext
TC=1.98.1-x86_64-unknown-linux-gnu
REG=$(ls -d ~/.cargo/registry/src/*/ | head -1)
CRC=$(ls -d ${REG}crc-any-2.5.1 2>/dev/null || ls -d ${REG}crc-any-* | tail -1)
TV=$(ls -d ${REG}tinyvec-1.13.3 2>/dev/null || ls -d ${REG}tinyvec-1* | tail -1)
if [ ! -f ext/libcrc_any.rlib ]; then
  rustc +$TC --edition 2021 --crate-type rlib --crate-name crc_any $CRC/src/lib.rs --out-dir ext -O --cap-lints allow
fi
if [ ! -f ext/libtinyvec.rlib ]; then
  rustc +$TC --edition 2018 --cfg 'feature="rustc_1_55"' --crate-type rlib --crate-name tinyvec $TV/src/lib.rs --out-dir ext -O --cap-lints allow
fi
ls ext
