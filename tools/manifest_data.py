HOOKS = {
    'guard': 'cfg(kani) / cfg(rtcm_rs_verif)',
    'enable': 'Kani sets cfg(kani) itself; native replay builds use RUSTFLAGS="--cfg rtcm_rs_verif"; the Verus engine needs no hook (it extracts text)',
    'baseline_off_cmd': 'cd /repo && cargo test --workspace --no-fail-fast --offline',
    'source_commits': ['14eeca8'],
    'add_only': True,
}
K_NOTE = ('Trusted: Kani 0.68 + CBMC 6.11 + CaDiCaL and Kani\'s model of rustc MIR (overflow checks on); harness oracles in /verif/kani (loop-free, written from the property text); '
          'unwinding assertions on. Harnesses are compiled inside the real crate through the cfg(kani) include hook.')
S_NOTE = ('Assumes the IEEE-754 standard model for f32/f64 + - * / (relative error <= 2^-24 / 2^-53, rounding monotone and exact on representable constants, no underflow/overflow: side conditions checked), '
          'float->int = truncation, int->float exact below the mantissa (checked); trusts z3 4.8.12 and the shape parser of the expanded df! bodies (any other shape -> exit 2, then bounded native search as stand-in).')
ENGINES = [
    {'name': 'K', 'path': 'tools/kani_engine.py', 'serves_properties': ['C07', 'C08'],
     'kind_free_text': 'Kani 0.68 (CBMC/CaDiCaL) complete harnesses on the real compiled crate: put/parse per carrier, every integer data field, encode/decode totality of every field'},
    {'name': 'S', 'path': 'tools/dfvc.py', 'serves_properties': ['C08', 'C11'],
     'kind_free_text': 'generated verification conditions (z3, QF_LIRA) from the expanded df! bodies of all float data fields under the IEEE-754 standard model'},
    {'name': 'V', 'path': 'tools/vgen.py', 'serves_properties': ['C03', 'C05', 'C06', 'C13', 'C18'],
     'kind_free_text': 'Verus 0.2026.09.13 (Z3) on functions cut out of /repo (source files or -Zunpretty=expanded) on every run, contracts spliced in from contracts/*.vt'},
]
NOTES = 'One CLI: ./check <id> --tier quick|thorough. Exit 0 all obligations discharged; 1 VIOLATION; 2 tool limit (never an alarm). Fixed defects and known findings: known_findings.json.'
V_NOTE = ('Trusted: Verus+Z3; the extraction rewrites listed in evidence.coverage.extraction_rewrites_applied (DESIGN.md 3.2); '
          'assumed specs of crc-any (crc24lte_a/digest/get_crc: digest is a left fold of the byte step) and of core slice indexing; '
          'every assume_specification/external_body/axiom in the generated unit is listed verbatim in evidence.coverage.trusted_base.')
CHECKS = {
    'C03': dict(engine='V', level='proof', design_ref='4/C03', technique='Verus function contracts on MessageFrame::new and accessors (extracted verbatim)',
                text='MessageFrame::new and the accessors are verified by Verus against a postcondition transcribed from the property text (bit-serial CRC-24Q spec function, length field, extent, every error class), for all byte slices, unbounded.',
                note=V_NOTE),
    'C05': dict(engine='V', level='proof', design_ref='4/C05', technique='Verus contracts + loop invariant on next_msg_frame, MsgFrameIter; recursive scan spec; dead-bytes lemma',
                text='next_msg_frame is proved equal to the recursive specification scan() (first deliverable candidate, incomplete candidate blocks, else everything consumed) for every buffer, with loop invariant and termination measure; iterator new/consumed/next proved against the same spec; lemma: every skipped byte can never start a valid frame under any extension.',
                note=V_NOTE + ' Iterator::next is extracted as a free function (rewrite X6).'),
    'C13': dict(engine='V', level='proof', design_ref='4/C13', technique='Verus postconditions on MessageFrame::new as functions of the first L+6 bytes + lemma over suffix extension',
                text='Every accessor value of an accepted frame is proved equal to a spec function of the frame\'s own L+6 bytes; lemma wf_for(s) == wf_for(s + x) for all suffixes x; message number present iff L >= 2.',
                note=V_NOTE + ' get_message reading only data()/message_number() is covered by the C14 unit when present.'),
    'C06': dict(engine='V', level='proof', design_ref='4/C06', technique='Verus lemmas by induction over the scanner specification scan(), which next_msg_frame is proved equal to',
                text='The caller protocol of the statement (append chunk, call scanner until it delivers nothing, drop consumed bytes) is written as spec functions feed/drain; lemma_c06_statement proves feed(chunks) == drain(concat(chunks)) for every stream and every chunking by induction, from scan_extend (a delivered frame is unaffected by later data; an undecided candidate is kept). The code enters only through scan.* obligations of next_msg_frame and new.* of MessageFrame::new.',
                note=V_NOTE + ' feed/drain model the caller (not repository code), as the statement itself does.'),
    'C18': dict(engine='V', level='proof', design_ref='4/C18', technique='Verus: each table function re-emitted verbatim as spec twin; bijection/range/total-order lemmas over the twins; cmp postcondition; reference positions',
                text='For all seven constellations (discovered from the expansion): to_sig/to_id are proved equal to spec twins that are their own match tables, lemmas prove the bijection in both directions for all u8 and all (u8,char), positions within 2..=32, is_valid == in table, Ord::cmp == the order of positions with unrecognised last and a lexicographic tie-break, reflexive/antisymmetric/transitive; the RTCM/RINEX reference positions are checked one-directionally.',
                note=V_NOTE + ' <char as Ord>::cmp has an assumed specification (code-point order). Reference positions are transcribed from RTCM 10403.3 by hand.'),
    'C07': dict(engine='K', level='other', design_ref='4/C07', technique='Kani complete (loop-free oracle, symbolic bit index) harnesses on Assembler::put / Parser::parse per carrier type',
                text='For each of the carrier types the crate instantiates (inventory from the expansion): put and parse are checked by CBMC for ALL values, ALL widths 1..=BITS, ALL bit offsets/alignments, ALL background contents and a symbolic buffer length, against the statement (exact field bits MSB first, two\'s complement / sign-magnitude, every other bit unchanged via a symbolic bit index, overflow => BufferOverflow with buffer and cursor unchanged, parse(put(v)) == v). Complete in every dimension except the buffer length, which is symbolic up to a stated window (quick: carrier bytes + 3; thorough: 20-64 bytes) => labelled bounded(window), not counted as an unbounded proof.',
                note=K_NOTE + ' Locality of put/parse in the buffer beyond the window is not mechanised.'),
    'C08': dict(engine='S+K', level='proof', design_ref='4/C08', technique='per data field: Kani complete harness (integer fields, all 2^w patterns symbolic) + generated z3 VCs under the IEEE standard model (float fields), over L0 contracts',
                text='Inventory of all df! fields from the expansion. Integer-typed fields: Kani proves on the real decode/encode that every w-bit pattern decodes (no panic, exact width) and re-encodes to the same bits, None <=> the one invalid pattern. Float-typed fields: symbolic execution of the expanded encode/decode bodies into linear real arithmetic with bounded relative rounding error; z3 proves encode(decode(p)) == p for every non-invalid pattern of every width up to 38 bits, plus structural obligations (same carrier/width/invalid marker/grid on both sides). L0 bit packing from unit l0bits.',
                note=S_NOTE + ' ' + K_NOTE + ' L0 window bound as in C07.'),
    'C11': dict(engine='S', level='proof', design_ref='4/C11', technique='generated z3 VCs (QF_LIRA) per float field over real inputs: in-range => accepted and not wrapped, chosen integer within 1/2 + slack of the exact quotient, decoded error <= R/2 + 16u(|x|+|B|+R), monotone by structure',
                text='For every float field and every real x between the smallest and largest representable value: encode accepts, the written integer is in range and not the invalid marker, it is one of the two neighbours of (x-B)/R, and decode(encode(x)) differs from x by at most half a step plus a stated float slack. Quantified over all reals in range (no sampling).',
                note=S_NOTE),
}
NOT_APPLICABLE = {}
