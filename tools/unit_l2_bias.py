"""C16, encode side of the two hand-written SSR code-bias list codecs (df_msg1059_biases, df_msg1065_biases) under contract.

The real `encode` text is emitted as `encode_checked` with these declared rewrites (R10, all semantics preserving desugarings of
iterator adapters Verus does not accept, plus RF for the float quantiser whose arithmetic is decided by engine S):
  R10a  `for s in A..=Bu8 { .. }`                            => `let mut s: u8 = A; while s <= B { ..; s += 1; }`   (B < 255)
  R10b  `X.iter().filter(|b| COND).count()`                  => a counting index loop over `X.as_slice()`
  R10c  `for v in X.iter().filter(|b| COND) { BODY }`        => `for v in X.iter() { if !(COND[b:=v]) { continue; } BODY }`
  RF    `let mut bias = v.bias_m; bias /= R; let bias = if bias > 0.0 { bias + 0.5 } else { bias - 0.5 } as i16;`
                                                              => `let bias = crate::verif_bias_quant(v.bias_m, R);`
The wire format is a recursive spec function `enc_list` (satellite count, then per present satellite in ascending order:
id, entry count, entries in list order); encode is proved to append exactly it, with both count fields equal to the true
counts and within their widths, or to return an error for a stated reason."""
import re
import vgen
from vgen import FnSpec, norm_ws
from rsx import ToolLimit

P = {'C16', 'C09'}

RE_ENC = re.compile(
    r'^let mut sat_mask: (?P<MT>u64|u32) = 0; let mut sat_num: u8 = 0; '
    r'for bias in value\.iter\(\) \{ if bias\.satellite_id <= (?P<SMAX>\d+) \{ let sat = 1 << bias\.satellite_id; if sat_mask & sat == 0 \{ sat_mask \|= 1 << bias\.satellite_id; sat_num \+= 1; \} \} '
    r'else \{ return Err\(RtcmError::OutOfRange\); \} \} '
    r'(?P<chk>if sat_num > 63 \{ return Err\(RtcmError::OutOfRange\); \} )?'
    r'asm\.put::<U8>\(sat_num, 6\)\?; '
    r'for s in 0\.\.=(?P<SMAX2>\d+)u8 \{ if sat_mask & \(1 << s\) != 0 \{ asm\.put::<U8>\(s, (?P<SW>\d+)\)\?; '
    r'let num_biases = value\.iter\(\)\.filter\(\|b\| b\.satellite_id == s && to_id\(b\.signal_id\)\.is_some\(\)\)\.count\(\); '
    r'if num_biases > 31 \{ return Err\(RtcmError::OutOfRange\); \} asm\.put::<U8>\(num_biases as u8, 5\)\?; let mut bias_mask: u32 = 0; '
    r'for bias in value\.iter\(\)\.filter\(\|b\| b\.satellite_id == s\) \{ if let Some\(sig_id\) = to_id\(bias\.signal_id\) \{ asm\.put::<U8>\(sig_id, 5\)\?; '
    r'let mut bias = bias\.bias_m; bias /= (?P<RES>[0-9.]+); let bias = if bias > 0\.0 \{ bias \+ 0\.5 \} else \{ bias - 0\.5 \} as i16; asm\.put::<I16>\(bias, (?P<BW>\d+)\)\?; \} \} \} \} Ok\(\(\)\)$')


def is_bias_list(fr):
    return fr.name in ('df_msg1059_biases', 'df_msg1065_biases')


SPEC = '''
// ---- bit masks, least significant bit = satellite 0 (as the encoder builds them)
pub open spec fn bitl(m: %(MT)s, t: int) -> bool { 0 <= t < %(NB)d && ((m >> (t as %(MT)s)) & 1) == 1 }
pub open spec fn cntl(m: %(MT)s, n: nat) -> nat decreases n { if n == 0 { 0 } else { cntl(m, (n - 1) as nat) + (if bitl(m, n - 1) { 1nat } else { 0nat }) } }
pub proof fn lemma_setl(m: %(MT)s, t: %(MT)s, q: %(MT)s)
    requires t < %(NB)d, q < %(NB)d,
    ensures bitl(m | (1%(MT)s << t), q as int) == (bitl(m, q as int) || q == t),
            ((m & (1%(MT)s << t)) == 0) == !bitl(m, t as int),
{
    assert((((m | (1%(MT)s << t)) >> q) & 1 == 1) == (((m >> q) & 1 == 1) || q == t)) by(bit_vector) requires t < %(NB)d, q < %(NB)d;
    assert(((m & (1%(MT)s << t)) == 0) == !((m >> t) & 1 == 1)) by(bit_vector) requires t < %(NB)d;
}
pub proof fn lemma_cntl_set(m: %(MT)s, t: %(MT)s, n: nat)
    requires t < %(NB)d, !bitl(m, t as int), n <= %(NB)d,
    ensures cntl(m | (1%(MT)s << t), n) == cntl(m, n) + (if t < n { 1nat } else { 0nat }),
    decreases n
{ if n > 0 { lemma_cntl_set(m, t, (n - 1) as nat); lemma_setl(m, t, (n - 1) as %(MT)s); } }
pub proof fn lemma_cntl_le(m: %(MT)s, n: nat) ensures cntl(m, n) <= n decreases n { if n > 0 { lemma_cntl_le(m, (n - 1) as nat); } }
pub proof fn lemma_zero_mask(n: nat)
    requires n <= %(NB)d,
    ensures cntl(0, n) == 0, forall|t: int| !bitl(0, t),
    decreases n
{
    assert forall|t: int| !bitl(0, t) by { if 0 <= t < %(NB)d { let s = t as %(MT)s; assert((0%(MT)s >> s) & 1 == 0) by(bit_vector); } }
    if n > 0 { lemma_zero_mask((n - 1) as nat); }
}
// ---- the list on the wire (C16)
pub open spec fn recognised(e: %(E)s) -> bool { to_id_spec(e.signal_id) is Some }
pub open spec fn present(v: Seq<%(E)s>, k: int, t: int) -> bool { exists|j: int| 0 <= j < k && #[trigger] v[j].satellite_id == t }
pub open spec fn entry_bits(e: %(E)s) -> Seq<bool> {
    crate::bits_of_int(to_id_spec(e.signal_id)->Some_0 as int, 5) + crate::sbits(crate::bias_q(e.bias_m, %(RES)s) as int, %(BW)d)
}
// number / bits of the recognised entries of satellite s among the first k list elements, in list order
pub open spec fn gcnt(v: Seq<%(E)s>, s: int, k: nat) -> nat decreases k {
    if k == 0 { 0 } else { gcnt(v, s, (k - 1) as nat) + (if v[k - 1].satellite_id == s && recognised(v[k - 1]) { 1nat } else { 0nat }) }
}
pub open spec fn gbits(v: Seq<%(E)s>, s: int, k: nat) -> Seq<bool> decreases k {
    if k == 0 { Seq::<bool>::empty() }
    else if v[k - 1].satellite_id == s && recognised(v[k - 1]) { gbits(v, s, (k - 1) as nat) + entry_bits(v[k - 1]) }
    else { gbits(v, s, (k - 1) as nat) }
}
pub open spec fn nsat(v: Seq<%(E)s>, t: nat) -> nat decreases t {
    if t == 0 { 0 } else { nsat(v, (t - 1) as nat) + (if present(v, v.len() as int, t - 1) { 1nat } else { 0nat }) }
}
pub open spec fn group(v: Seq<%(E)s>, s: int) -> Seq<bool> {
    crate::bits_of_int(s, %(SW)d) + crate::bits_of_int(gcnt(v, s, v.len()) as int, 5) + gbits(v, s, v.len())
}
pub open spec fn groups(v: Seq<%(E)s>, t: nat) -> Seq<bool> decreases t {
    if t == 0 { Seq::<bool>::empty() }
    else if present(v, v.len() as int, t - 1) { groups(v, (t - 1) as nat) + group(v, t - 1) }
    else { groups(v, (t - 1) as nat) }
}
pub open spec fn enc_list(v: Seq<%(E)s>) -> Seq<bool> { crate::bits_of_int(nsat(v, %(NB)d) as int, 6) + groups(v, %(NB)d) }
pub open spec fn counts_fit(v: Seq<%(E)s>) -> bool {
    nsat(v, %(NB)d) <= 63 && forall|s: int| 0 <= s < %(NB)d && present(v, v.len() as int, s) ==> #[trigger] gcnt(v, s, v.len()) <= 31
}
pub proof fn lemma_cnt_is_nsat(m: %(MT)s, v: Seq<%(E)s>, n: nat)
    requires n <= %(NB)d, forall|t: int| 0 <= t < %(NB)d ==> (bitl(m, t) <==> present(v, v.len() as int, t)),
    ensures cntl(m, n) == nsat(v, n),
    decreases n
{ if n > 0 { lemma_cnt_is_nsat(m, v, (n - 1) as nat); } }
'''

INV0 = '''    invariant
        verif_sl0@ == vv, vv == value@, verif_k0 <= vv.len(),
        asm.bits() == vb0, vb0 == old(asm).bits(), asm.cap() == old(asm).cap(), asm.poison() == old(asm).poison(), asm.cap() <= 0x100_0000_0000,
        forall|j: int| 0 <= j < verif_k0 ==> #[trigger] vv[j].satellite_id <= %(SMAX)d,
        forall|t: int| 0 <= t < %(NB)d ==> (bitl(sat_mask, t) <==> present(vv, verif_k0 as int, t)),
        sat_num == cntl(sat_mask, %(NB)d),
    decreases verif_sl0.len() - verif_k0,'''

SAT0 = '''proof {
    let t = bias.satellite_id as %(MT)s;
    lemma_setl(sat_mask, t, t);
    lemma_cntl_le(sat_mask | (1%(MT)s << t), %(NB)d);
    assert(sat == 1%(MT)s << t);
    if !bitl(sat_mask, t as int) { lemma_cntl_set(sat_mask, t, %(NB)d); }
}'''

SAT0B = '''proof {
    let t = verif_sl0@[verif_k0 as int].satellite_id as %(MT)s;
    let m1 = sat_mask;
    assert forall|q: int| 0 <= q < %(NB)d implies (bitl(m1, q) <==> present(vv, verif_k0 + 1, q)) by {
        if verif_old_bit {
            // the bit was already set: mask unchanged
        } else {
            lemma_setl(verif_m0, t, q as %(MT)s);
        }
        if q == t as int { assert(vv[verif_k0 as int].satellite_id == q); }
        if present(vv, verif_k0 + 1, q) && q != t as int { let j1 = choose|j: int| 0 <= j < verif_k0 + 1 && #[trigger] vv[j].satellite_id == q; assert(j1 < verif_k0); }
        if present(vv, verif_k0 as int, q) { let j2 = choose|j: int| 0 <= j < verif_k0 && #[trigger] vv[j].satellite_id == q; assert(0 <= j2 < verif_k0 + 1 && vv[j2].satellite_id == q); }
    }
}'''

INV1 = '''    invariant
        vv == value@, s <= %(SMAX)d + 1, sat_num == nsat(vv, %(NB)d), sat_num <= 63,
        forall|j: int| 0 <= j < vv.len() ==> #[trigger] vv[j].satellite_id <= %(SMAX)d,
        forall|t: int| 0 <= t < %(NB)d ==> (bitl(sat_mask, t) <==> present(vv, vv.len() as int, t)),
        forall|t: int| 0 <= t < s && present(vv, vv.len() as int, t) ==> #[trigger] gcnt(vv, t, vv.len()) <= 31,
        asm.cap() == old(asm).cap(), asm.poison() == old(asm).poison(), asm.cap() <= 0x100_0000_0000, vb0 == old(asm).bits(),
        asm.bits() == vb0 + crate::bits_of_int(sat_num as int, 6) + groups(vv, s as nat),
    decreases %(SMAX)d + 1 - s,'''

INV2 = '''    invariant
        verif_fs@ == vv, vv == value@, verif_fj <= vv.len(), verif_fc == gcnt(vv, s as int, verif_fj as nat), verif_fc <= verif_fj,
    decreases verif_fs.len() - verif_fj,'''

INV3 = '''    invariant
        verif_sl1@ == vv, vv == value@, verif_k1 <= vv.len(), s <= %(SMAX)d,
        asm.cap() == old(asm).cap(), asm.poison() == old(asm).poison(), asm.cap() <= 0x100_0000_0000,
        asm.bits() == vb2 + gbits(vv, s as int, verif_k1 as nat),
        vb0 == old(asm).bits(), vb2.len() >= vb0.len(), vb2.subrange(0, vb0.len() as int) == vb0,
    decreases verif_sl1.len() - verif_k1,'''


def emit(vf, exp, path, fr, ind):
    m = RE_ENC.match(fr.enc_body)
    if not m:
        raise ToolLimit('%s: encode does not have the expected shape: %s' % (fr.name, fr.enc_body[:300]))
    MT, SMAX, SW, RES, BW = m.group('MT'), int(m.group('SMAX')), int(m.group('SW')), m.group('RES'), int(m.group('BW'))
    NB = 64 if MT == 'u64' else 32
    if int(m.group('SMAX2')) != SMAX or SMAX != NB - 1:
        raise ToolLimit('%s: satellite bound %d / loop bound %s do not match the %d-bit mask' % (fr.name, SMAX, m.group('SMAX2'), NB))
    has_chk = m.group('chk') is not None
    E = fr.struct.name
    pid = fr.name
    D = {'MT': MT, 'NB': NB, 'SMAX': SMAX, 'SW': SW, 'RES': RES, 'BW': BW, 'E': E}
    # to_id: real text + spec twin
    vgen.emit_spec_twin(vf, exp, path + ['fn:to_id'], 'to_id_spec', indent=ind, replace=[(r'sig\.band\(\)', 'sig.0'), (r'sig\.attribute\(\)', 'sig.1')])
    vf.rewrites.append('X8 %s::to_id spec twin: accessor calls band()/attribute() replaced by the fields they are proved to return' % pid)
    sp = FnSpec(); sp.ret = 'r'; sp.body_props = P
    sp.ensures = [('l2.%s.to_id.twin' % pid, P, 'r == to_id_spec(sig)')]
    vgen.emit_fn(vf, exp, path + ['fn:to_id'], sp, label='df::dfs::%s::to_id' % pid, indent=ind, keep_pub=True)
    vf.emit('\n'.join(ind + l for l in (SPEC % D).split('\n')))
    # ---- encode_checked
    sp = FnSpec(); sp.ret = 'r'; sp.body_props = P
    sp.rename = 'encode_checked'
    sp.attrs = '#[verifier::rlimit(150)]'
    sp.slice_map = {'value': 'value.as_slice()'}
    sp.replace = [
        (r'\b(asm|par)\.(put|parse)::<(\w+)>\(', r'\1.\2_\3(', 'R6 generic L0 call monomorphised'),
        (r'(?s)let num_biases =\s*value\s*\.iter\(\)\s*\.filter\(\|b\|\s*(?P<cond>.*?)\)\s*\.count\(\);',
         lambda mm: ('let num_biases = { let verif_fs = value.as_slice(); let mut verif_fc: usize = 0; let mut verif_fj: usize = 0;\n'
                     ' while verif_fj < verif_fs.len() /*@LOOPHEAD*/ {\n let b = &verif_fs[verif_fj];\n if %s { verif_fc += 1; }\n verif_fj += 1;\n }\n verif_fc };' % norm_ws(mm.group('cond'))),
         'R10b `X.iter().filter(|b| COND).count()` => counting index loop over X.as_slice()'),
        (r'for (\w+) in value\.iter\(\)\.filter\(\|b\| b\.satellite_id == s\)\s*\{',
         r'for \1 in value.iter() { if !(\1.satellite_id == s) { continue; }',
         'R10c `for v in X.iter().filter(|b| COND) {` => `for v in X.iter() { if !(COND[b:=v]) { continue; }`'),
        (r'let mut bias = bias\.bias_m;\s*bias /= ([0-9.]+);\s*let bias =\s*if bias > 0\.0 \{ bias \+ 0\.5 \} else \{ bias - 0\.5 \} as i16;',
         r'let bias = crate::verif_bias_quant(bias.bias_m, \1);',
         'RF float quantiser (divide, add +-0.5 by sign, cast; cannot panic) abstracted by an uninterpreted helper; its arithmetic is decided by engine S'),
    ]
    sp.requires = [('l2.%s.encode.pre' % pid, set(), 'old(asm).cap() <= 0x100_0000_0000')]
    sp.ensures = [
        ('l2.%s.encode.frame' % pid, P, 'final(asm).cap() == old(asm).cap() && final(asm).poison() == old(asm).poison()'),
        ('l2.%s.encode.append_only' % pid, P, 'final(asm).bits().len() >= old(asm).bits().len() && final(asm).bits().subrange(0, old(asm).bits().len() as int) == old(asm).bits()'),
        ('l2.%s.encode.error_kinds' % pid, P, 'r is Err ==> (r->Err_0 is BufferOverflow || r->Err_0 is OutOfRange)'),
        ('l2.%s.encode.out_of_range_only_for_a_reason' % pid, {'C16'},
         'r is Err && r->Err_0 is OutOfRange ==> (exists|j: int| 0 <= j < value@.len() && #[trigger] value@[j].satellite_id > %(SMAX)d) || !counts_fit(value@)' % D),
        ('l2.%s.encode.writes_every_entry_once_with_true_counts' % pid, {'C16', 'C01'},
         'r is Ok ==> final(asm).bits() == old(asm).bits() + enc_list(value@) && counts_fit(value@)\n'
         '    && forall|j: int| 0 <= j < value@.len() ==> #[trigger] value@[j].satellite_id <= %(SMAX)d' % D),
    ]
    A = sp.inserts.append
    A(('before', 'let mut sat_mask:', 0, 'let ghost vv = value@; let ghost vb0 = asm.bits();\nproof { lemma_zero_mask(%(NB)d); }' % D))
    sp.loops[0] = INV0 % D
    sp.loopbodies[0] = 'let ghost verif_m0 = sat_mask; let ghost verif_old_bit = bitl(sat_mask, verif_sl0@[verif_k0 as int].satellite_id as int);'
    A(('after', 'let sat = 1 << bias.satellite_id;', 0, SAT0 % D))
    A(('before', 'verif_k0 += 1;', 0, SAT0B % D))
    after_loop0 = ('proof { lemma_cnt_is_nsat(sat_mask, vv, %(NB)d); lemma_cntl_le(sat_mask, %(NB)d); }' % D)
    if has_chk:
        A(('before', 'if sat_num > 63', 0, after_loop0))
        A(('before', 'return Err(RtcmError::OutOfRange);', 1, 'proof { assert(!counts_fit(vv)); }'))
    else:
        A(('before', 'asm.put_U8(sat_num, 6)?;', 0, after_loop0))
    A(('after', 'asm.put_U8(sat_num, 6)?;', 0, 'proof { assert(asm.bits() =~= vb0 + crate::bits_of_int(sat_num as int, 6) + groups(vv, 0)); }'))
    sp.loops[1] = INV1 % D
    sp.loopbodies[1] = 'let ghost vb1 = asm.bits(); proof { lemma_setl(sat_mask, s as %(MT)s, s as %(MT)s); }' % D
    sp.loops[2] = INV2 % D
    A(('before', 'return Err(RtcmError::OutOfRange);', 2 if has_chk else 1,
       'proof { assert(present(vv, vv.len() as int, s as int) && gcnt(vv, s as int, vv.len()) > 31); assert(!counts_fit(vv)); }'))
    A(('after', 'asm.put_U8(num_biases as u8, 5)?;', 0, 'let ghost vb2 = asm.bits();\nproof { assert(vb2.subrange(0, vb0.len() as int) =~= vb0); }'))
    sp.loopbodies[3] = 'proof { assert(asm.bits().subrange(0, vb0.len() as int) =~= vb0); }'
    A(('after', 'asm.put_U8(sig_id, 5)?;', 0, 'proof { assert(asm.bits().subrange(0, vb0.len() as int) =~= vb0); }'))
    A(('after', 'let mut bias_mask: u32 = 0;', 0, 'proof { assert(asm.bits() =~= vb2 + gbits(vv, s as int, 0)); }'))
    sp.loops[3] = INV3 % D
    A(('after', 'asm.put_I16(bias, %d)?;' % BW, 0,
       'proof { assert(asm.bits() =~= vb2 + (gbits(vv, s as int, verif_k1 as nat) + entry_bits(vv[verif_k1 as int]))); }'))
    A(('before', 's += 1;', 0,
       '''proof {
    if bitl(sat_mask, s as int) {
        assert(asm.bits() =~= vb1 + group(vv, s as int));
        assert(asm.bits() =~= vb0 + crate::bits_of_int(sat_num as int, 6) + (groups(vv, s as nat) + group(vv, s as int)));
    }
}'''))
    A(('before', 'Ok(())', 0, 'proof { assert(s == %(NB)d); assert(counts_fit(vv)); assert(asm.bits() =~= vb0 + enc_list(vv)); }' % D))
    vgen.emit_fn(vf, exp, path + ['fn:encode'], sp, label='df::dfs::%s::encode' % pid, indent=ind, keep_pub=True)
