"""C16, encode side of the two hand-written SSR code-bias list codecs (df_msg1059_biases, df_msg1065_biases) under contract.

The real `encode` text is emitted as `encode_checked` with these declared rewrites (R10, all semantics preserving desugarings of
iterator adapters Verus does not accept, plus RF for the float quantiser whose arithmetic is decided by engine S):
  R10a  `for s in A..=Bu8 { .. }`                            => `let mut s: u8 = A; while s <= B { ..; s += 1; }`   (B < 255)
  R10b  `X.iter().filter(|b| COND).count()`                  => a counting index loop over `X.as_slice()`
  R10c  `for v in X.iter().filter(|b| COND) { BODY }`        => `for v in X.iter() { if !(COND[b:=v]) { continue; } BODY }`
  RF    `let mut bias = v.bias_m; bias /= R; let bias = if bias > 0.0 { bias + 0.5 } else { bias - 0.5 } as i16;`
                                                              => `let bias = crate::verif_bias_quant(v.bias_m, R);`
The wire format is a recursive spec function `enc_list` (satellite count, then per present satellite in ascending order:
id, entry count, entries in list order); encode is proved to append exactly it, with both count fields equal to the true
counts and within their widths, or to return an error for a stated reason."""
import re
import vgen
from vgen import FnSpec, norm_ws
from rsx import ToolLimit

P = {'C16', 'C09'}

RE_ENC = re.compile(
    r'^let mut sat_mask: (?P<MT>u64|u32) = 0; let mut sat_num: u8 = 0; '
    r'for bias in value\.iter\(\) \{ if bias\.satellite_id <= (?P<SMAX>\d+) \{ let sat = 1 << bias\.satellite_id; if sat_mask & sat == 0 \{ sat_mask \|= 1 << bias\.satellite_id; sat_num \+= 1; \} \} '
    r'else \{ return Err\(RtcmError::OutOfRange\); \} \} '
    r'(?P<chk>if sat_num > (?P<CHKN>\d+) \{ return Err\(RtcmError::OutOfRange\); \} )?'
    r'asm\.put::<U8>\(sat_num, (?P<SNW>\d+)\)\?; '
    r'for s in 0\.\.=(?P<SMAX2>\d+)u8 \{ if sat_mask & \(1 << s\) != 0 \{ asm\.put::<U8>\(s, (?P<SW>\d+)\)\?; '
    r'let num_biases = value\.iter\(\)\.filter\(\|b\| (?P<CCOND>.+?)\)\.count\(\)(?P<CCAST> as u8)?; '
    r'(?P<chk2>if num_biases > (?P<NBMAX>\d+) \{ return Err\(RtcmError::OutOfRange\); \} )?asm\.put::<U8>\((?P<NBARG>num_biases(?: as u8)?), (?P<NBW>\d+)\)\?; let mut bias_mask: u32 = 0; '
    r'for bias in value\.iter\(\)\.filter\(\|b\| b\.satellite_id == s\) \{ if let Some\(sig_id\) = to_id\(bias\.signal_id\) \{ asm\.put::<U8>\(sig_id, (?P<SIGW>\d+)\)\?; '
    r'let mut bias = bias\.bias_m; bias /= (?P<RES>[0-9.]+); let bias = if bias > 0\.0 \{ bias \+ 0\.5 \} else \{ bias - 0\.5 \} as i16; asm\.put::<I16>\(bias, (?P<BW>\d+)\)\?; \} \} \} \} Ok\(\(\)\)$')

# RTCM 10403.3, SSR code bias messages 1059 (GPS) / 1065 (GLONASS): no. of satellites 6 bits; satellite id 6 / 5 bits; no. of code biases 5 bits;
# signal and tracking mode indicator 5 bits; code bias 14 bits at 0.01 m.  The specification functions use these numbers; the code's own
# numbers are only used to find the statements, so a changed width or limit in the code fails an obligation instead of moving the spec.
STANDARD = {
    'df_msg1059_biases': {'NB': 64, 'SMAX': 63, 'SW': 6, 'BW': 14, 'RES': '0.01'},
    'df_msg1065_biases': {'NB': 32, 'SMAX': 31, 'SW': 5, 'BW': 14, 'RES': '0.01'},
}


def is_bias_list(fr):
    return fr.name in ('df_msg1059_biases', 'df_msg1065_biases')


SPEC = '''
// ---- bit masks, least significant bit = satellite 0 (as the encoder builds them)
pub open spec fn bitl(m: %(MT)s, t: int) -> bool { 0 <= t < %(NB)d && ((m >> (t as %(MT)s)) & 1) == 1 }
pub open spec fn cntl(m: %(MT)s, n: nat) -> nat decreases n { if n == 0 { 0 } else { cntl(m, (n - 1) as nat) + (if bitl(m, n - 1) { 1nat } else { 0nat }) } }
pub proof fn lemma_setl(m: %(MT)s, t: %(MT)s, q: %(MT)s)
    requires t < %(NB)d, q < %(NB)d,
    ensures bitl(m | (1%(MT)s << t), q as int) == (bitl(m, q as int) || q == t),
            ((m & (1%(MT)s << t)) == 0) == !bitl(m, t as int),
{
    assert((((m | (1%(MT)s << t)) >> q) & 1 == 1) == (((m >> q) & 1 == 1) || q == t)) by(bit_vector) requires t < %(NB)d, q < %(NB)d;
    assert(((m & (1%(MT)s << t)) == 0) == !((m >> t) & 1 == 1)) by(bit_vector) requires t < %(NB)d;
}
pub proof fn lemma_cntl_set(m: %(MT)s, t: %(MT)s, n: nat)
    requires t < %(NB)d, !bitl(m, t as int), n <= %(NB)d,
    ensures cntl(m | (1%(MT)s << t), n) == cntl(m, n) + (if t < n { 1nat } else { 0nat }),
    decreases n
{ if n > 0 { lemma_cntl_set(m, t, (n - 1) as nat); lemma_setl(m, t, (n - 1) as %(MT)s); } }
pub proof fn lemma_cntl_le(m: %(MT)s, n: nat) ensures cntl(m, n) <= n decreases n { if n > 0 { lemma_cntl_le(m, (n - 1) as nat); } }
pub proof fn lemma_zero_mask(n: nat)
    requires n <= %(NB)d,
    ensures cntl(0, n) == 0, forall|t: int| !bitl(0, t),
    decreases n
{
    assert forall|t: int| !bitl(0, t) by { if 0 <= t < %(NB)d { let s = t as %(MT)s; assert((0%(MT)s >> s) & 1 == 0) by(bit_vector); } }
    if n > 0 { lemma_zero_mask((n - 1) as nat); }
}
// ---- the list on the wire (C16)
pub open spec fn recognised(e: %(E)s) -> bool { to_id_spec(e.signal_id) is Some }
pub open spec fn present(v: Seq<%(E)s>, k: int, t: int) -> bool { exists|j: int| 0 <= j < k && #[trigger] v[j].satellite_id == t }
pub open spec fn entry_bits(e: %(E)s) -> Seq<bool> {
    crate::bits_of_int(to_id_spec(e.signal_id)->Some_0 as int, 5) + crate::sbits(crate::bias_q(e.bias_m, %(RES)s) as int, %(BW)d)
}
// number / bits of the recognised entries of satellite s among the first k list elements, in list order
pub open spec fn gcnt(v: Seq<%(E)s>, s: int, k: nat) -> nat decreases k {
    if k == 0 { 0 } else { gcnt(v, s, (k - 1) as nat) + (if v[k - 1].satellite_id == s && recognised(v[k - 1]) { 1nat } else { 0nat }) }
}
pub open spec fn gbits(v: Seq<%(E)s>, s: int, k: nat) -> Seq<bool> decreases k {
    if k == 0 { Seq::<bool>::empty() }
    else if v[k - 1].satellite_id == s && recognised(v[k - 1]) { gbits(v, s, (k - 1) as nat) + entry_bits(v[k - 1]) }
    else { gbits(v, s, (k - 1) as nat) }
}
pub open spec fn nsat(v: Seq<%(E)s>, t: nat) -> nat decreases t {
    if t == 0 { 0 } else { nsat(v, (t - 1) as nat) + (if present(v, v.len() as int, t - 1) { 1nat } else { 0nat }) }
}
pub open spec fn group(v: Seq<%(E)s>, s: int) -> Seq<bool> {
    crate::bits_of_int(s, %(SW)d) + crate::bits_of_int(gcnt(v, s, v.len()) as int, 5) + gbits(v, s, v.len())
}
pub open spec fn groups(v: Seq<%(E)s>, t: nat) -> Seq<bool> decreases t {
    if t == 0 { Seq::<bool>::empty() }
    else if present(v, v.len() as int, t - 1) { groups(v, (t - 1) as nat) + group(v, t - 1) }
    else { groups(v, (t - 1) as nat) }
}
pub open spec fn enc_list(v: Seq<%(E)s>) -> Seq<bool> { crate::bits_of_int(nsat(v, %(NB)d) as int, 6) + groups(v, %(NB)d) }
pub open spec fn counts_fit(v: Seq<%(E)s>) -> bool {
    nsat(v, %(NB)d) <= 63 && forall|s: int| 0 <= s < %(NB)d && present(v, v.len() as int, s) ==> #[trigger] gcnt(v, s, v.len()) <= 31
}
pub proof fn lemma_cnt_is_nsat(m: %(MT)s, v: Seq<%(E)s>, n: nat)
    requires n <= %(NB)d, forall|t: int| 0 <= t < %(NB)d ==> (bitl(m, t) <==> present(v, v.len() as int, t)),
    ensures cntl(m, n) == nsat(v, n),
    decreases n
{ if n > 0 { lemma_cnt_is_nsat(m, v, (n - 1) as nat); } }
'''

INV0 = '''    invariant
        verif_sl0@ == vv, vv == value@, verif_k0 <= vv.len(),
        asm.bits() == vb0, vb0 == old(asm).bits(), asm.cap() == old(asm).cap(), asm.poison() == old(asm).poison(), asm.cap() <= 0x100_0000_0000,
        forall|j: int| 0 <= j < verif_k0 ==> #[trigger] vv[j].satellite_id <= %(SMAX)d,
        forall|t: int| 0 <= t < %(NB)d ==> (bitl(sat_mask, t) <==> present(vv, verif_k0 as int, t)),
        sat_num == cntl(sat_mask, %(NB)d),
    decreases verif_sl0.len() - verif_k0,'''

SAT0 = '''proof {
    let t = bias.satellite_id as %(MT)s;
    lemma_setl(sat_mask, t, t);
    lemma_cntl_le(sat_mask | (1%(MT)s << t), %(NB)d);
    assert(sat == 1%(MT)s << t);
    if !bitl(sat_mask, t as int) { lemma_cntl_set(sat_mask, t, %(NB)d); }
}'''

SAT0B = '''proof {
    let t = verif_sl0@[verif_k0 as int].satellite_id as %(MT)s;
    let m1 = sat_mask;
    assert forall|q: int| 0 <= q < %(NB)d implies (bitl(m1, q) <==> present(vv, verif_k0 + 1, q)) by {
        if verif_old_bit {
            // the bit was already set: mask unchanged
        } else {
            lemma_setl(verif_m0, t, q as %(MT)s);
        }
        if q == t as int { assert(vv[verif_k0 as int].satellite_id == q); }
        if present(vv, verif_k0 + 1, q) && q != t as int { let j1 = choose|j: int| 0 <= j < verif_k0 + 1 && #[trigger] vv[j].satellite_id == q; assert(j1 < verif_k0); }
        if present(vv, verif_k0 as int, q) { let j2 = choose|j: int| 0 <= j < verif_k0 && #[trigger] vv[j].satellite_id == q; assert(0 <= j2 < verif_k0 + 1 && vv[j2].satellite_id == q); }
    }
}'''

INV1 = '''    invariant
        vv == value@, s <= %(SMAX)d + 1, sat_num == nsat(vv, %(NB)d), sat_num <= 63,
        forall|j: int| 0 <= j < vv.len() ==> #[trigger] vv[j].satellite_id <= %(SMAX)d,
        forall|t: int| 0 <= t < %(NB)d ==> (bitl(sat_mask, t) <==> present(vv, vv.len() as int, t)),
        forall|t: int| 0 <= t < s && present(vv, vv.len() as int, t) ==> #[trigger] gcnt(vv, t, vv.len()) <= 31,
        asm.cap() == old(asm).cap(), asm.poison() == old(asm).poison(), asm.cap() <= 0x100_0000_0000, vb0 == old(asm).bits(),
        asm.bits() == vb0 + crate::bits_of_int(sat_num as int, 6) + groups(vv, s as nat),
    decreases %(SMAX)d + 1 - s,'''

INV2 = '''    invariant
        verif_fs@ == vv, vv == value@, verif_fj <= vv.len(), verif_fc == gcnt(vv, s as int, verif_fj as nat), verif_fc <= verif_fj,
    decreases verif_fs.len() - verif_fj,'''

INV3 = '''    invariant
        verif_sl1@ == vv, vv == value@, verif_k1 <= vv.len(), s <= %(SMAX)d,
        asm.cap() == old(asm).cap(), asm.poison() == old(asm).poison(), asm.cap() <= 0x100_0000_0000,
        asm.bits() == vb2 + gbits(vv, s as int, verif_k1 as nat),
        vb0 == old(asm).bits(), vb2.len() >= vb0.len(), vb2.subrange(0, vb0.len() as int) == vb0,
    decreases verif_sl1.len() - verif_k1,'''


def emit(vf, exp, path, fr, ind):
    m = RE_ENC.match(fr.enc_body)
    if not m:
        raise ToolLimit('%s: encode does not have the expected shape: %s' % (fr.name, fr.enc_body[:300]))
    C = m.groupdict()
    MT = C['MT']
    has_chk = C['chk'] is not None
    has_chk2 = C['chk2'] is not None
    E = fr.struct.name
    pid = fr.name
    D = dict(STANDARD[pid]); D['MT'] = MT; D['E'] = E
    NB, SMAX, SW, RES, BW = D['NB'], D['SMAX'], D['SW'], D['RES'], D['BW']
    # to_id: real text + spec twin
    vgen.emit_spec_twin(vf, exp, path + ['fn:to_id'], 'to_id_spec', indent=ind, replace=[(r'sig\.band\(\)', 'sig.0'), (r'sig\.attribute\(\)', 'sig.1')])
    vf.rewrites.append('X8 %s::to_id spec twin: accessor calls band()/attribute() replaced by the fields they are proved to return' % pid)
    sp = FnSpec(); sp.ret = 'r'; sp.body_props = P
    sp.ensures = [('l2.%s.to_id.twin' % pid, P, 'r == to_id_spec(sig)')]
    vgen.emit_fn(vf, exp, path + ['fn:to_id'], sp, label='df::dfs::%s::to_id' % pid, indent=ind, keep_pub=True)
    vf.emit('\n'.join(ind + l for l in (SPEC % D).split('\n')))
    # ---- encode_checked
    sp = FnSpec(); sp.ret = 'r'; sp.body_props = P
    sp.rename = 'encode_checked'
    sp.attrs = '#[verifier::rlimit(150)]'
    sp.slice_map = {'value': 'value.as_slice()'}
    sp.replace = [
        (r'\b(asm|par)\.(put|parse)::<(\w+)>\(', r'\1.\2_\3(', 'R6 generic L0 call monomorphised'),
        (r'(?s)let num_biases =\s*value\s*\.iter\(\)\s*\.filter\(\|b\|\s*(?P<cond>.*?)\)\s*\.count\(\)(?P<cast>\s*as u8)?;',
         lambda mm: ('let num_biases = { let verif_fs = value.as_slice(); let mut verif_fc: usize = 0; let mut verif_fj: usize = 0;\n'
                     ' while verif_fj < verif_fs.len() /*@LOOPHEAD*/ {\n let b = &verif_fs[verif_fj];\n if %s { verif_fc += 1; }\n verif_fj += 1;\n }\n verif_fc }%s;' % (norm_ws(mm.group('cond')), mm.group('cast') or '')),
         'R10b `X.iter().filter(|b| COND).count()` => counting index loop over X.as_slice()'),
        (r'for (\w+) in value\.iter\(\)\.filter\(\|b\| b\.satellite_id == s\)\s*\{',
         r'for \1 in value.iter() { if !(\1.satellite_id == s) { continue; }',
         'R10c `for v in X.iter().filter(|b| COND) {` => `for v in X.iter() { if !(COND[b:=v]) { continue; }`'),
        (r'let mut bias = bias\.bias_m;\s*bias /= ([0-9.]+);\s*let bias =\s*if bias > 0\.0 \{ bias \+ 0\.5 \} else \{ bias - 0\.5 \} as i16;',
         r'let bias = crate::verif_bias_quant(bias.bias_m, \1);',
         'RF float quantiser (divide, add +-0.5 by sign, cast; cannot panic) abstracted by an uninterpreted helper; its arithmetic is decided by engine S'),
    ]
    sp.requires = [('l2.%s.encode.pre' % pid, set(), 'old(asm).cap() <= 0x100_0000_0000')]
    sp.ensures = [
        ('l2.%s.encode.frame' % pid, P, 'final(asm).cap() == old(asm).cap() && final(asm).poison() == old(asm).poison()'),
        ('l2.%s.encode.append_only' % pid, P, 'final(asm).bits().len() >= old(asm).bits().len() && final(asm).bits().subrange(0, old(asm).bits().len() as int) == old(asm).bits()'),
        ('l2.%s.encode.error_kinds' % pid, P, 'r is Err ==> (r->Err_0 is BufferOverflow || r->Err_0 is OutOfRange)'),
        ('l2.%s.encode.out_of_range_only_for_a_reason' % pid, {'C16'},
         'r is Err && r->Err_0 is OutOfRange ==> (exists|j: int| 0 <= j < value@.len() && #[trigger] value@[j].satellite_id > %(SMAX)d) || !counts_fit(value@)' % D),
        ('l2.%s.encode.writes_every_entry_once_with_true_counts' % pid, {'C16', 'C01'},
         'r is Ok ==> final(asm).bits() == old(asm).bits() + enc_list(value@) && counts_fit(value@)\n'
         '    && forall|j: int| 0 <= j < value@.len() ==> #[trigger] value@[j].satellite_id <= %(SMAX)d' % D),
    ]
    A = sp.inserts.append
    A(('before', 'let mut sat_mask:', 0, 'let ghost vv = value@; let ghost vb0 = asm.bits();\nproof { lemma_zero_mask(%(NB)d); }' % D))
    sp.loops[0] = INV0 % D
    sp.loopbodies[0] = 'let ghost verif_m0 = sat_mask; let ghost verif_old_bit = bitl(sat_mask, verif_sl0@[verif_k0 as int].satellite_id as int);'
    A(('after', 'let sat = 1 << bias.satellite_id;', 0, SAT0 % D))
    A(('before', 'verif_k0 += 1;', 0, SAT0B % D))
    after_loop0 = ('proof { lemma_cnt_is_nsat(sat_mask, vv, %(NB)d); lemma_cntl_le(sat_mask, %(NB)d); }' % D)
    if has_chk:
        A(('before', 'if sat_num > %s' % C['CHKN'], 0, after_loop0))
        A(('before', 'return Err(RtcmError::OutOfRange);', 1, 'proof { assert(!counts_fit(vv)); }'))
    else:
        A(('before', 'asm.put_U8(sat_num, %s)?;' % C['SNW'], 0, after_loop0))
    A(('after', 'asm.put_U8(sat_num, %s)?;' % C['SNW'], 0, 'proof { assert(asm.bits() =~= vb0 + crate::bits_of_int(sat_num as int, 6) + groups(vv, 0)); }'))
    sp.loops[1] = INV1 % D
    sp.loopbodies[1] = 'let ghost vb1 = asm.bits(); proof { lemma_setl(sat_mask, s as %(MT)s, s as %(MT)s); }' % D
    sp.loops[2] = INV2 % D
    if has_chk2:
        A(('before', 'return Err(RtcmError::OutOfRange);', 2 if has_chk else 1,
           'proof { assert(present(vv, vv.len() as int, s as int) && gcnt(vv, s as int, vv.len()) > 31); assert(!counts_fit(vv)); }'))
    A(('after', 'asm.put_U8(%s, %s)?;' % (C['NBARG'], C['NBW']), 0, 'let ghost vb2 = asm.bits();\nproof { assert(vb2.subrange(0, vb0.len() as int) =~= vb0); }'))
    sp.loopbodies[3] = 'proof { assert(asm.bits().subrange(0, vb0.len() as int) =~= vb0); }'
    A(('after', 'asm.put_U8(sig_id, %s)?;' % C['SIGW'], 0, 'proof { assert(asm.bits().subrange(0, vb0.len() as int) =~= vb0); }'))
    A(('after', 'let mut bias_mask: u32 = 0;', 0, 'proof { assert(asm.bits() =~= vb2 + gbits(vv, s as int, 0)); }'))
    sp.loops[3] = INV3 % D
    A(('after', 'asm.put_I16(bias, %s)?;' % C['BW'], 0,
       'proof { assert(asm.bits() =~= vb2 + (gbits(vv, s as int, verif_k1 as nat) + entry_bits(vv[verif_k1 as int]))); }'))
    A(('before', 's += 1;', 0,
       '''proof {
    if bitl(sat_mask, s as int) {
        assert(asm.bits() =~= vb1 + group(vv, s as int));
        assert(asm.bits() =~= vb0 + crate::bits_of_int(sat_num as int, 6) + (groups(vv, s as nat) + group(vv, s as int)));
    }
}'''))
    A(('before', 'Ok(())', 0, 'proof { assert(s == %(NB)d); assert(counts_fit(vv)); assert(asm.bits() =~= vb0 + enc_list(vv)); }' % D))
    vgen.emit_fn(vf, exp, path + ['fn:encode'], sp, label='df::dfs::%s::encode' % pid, indent=ind, keep_pub=True)


# ---------------------------------------------------------------------------------------------------------------------
# decode side: the real decoder is proved equal to a recursive spec parser dec_list(); lemmas then show that the spec parser
# inverts the spec encoder: dec_list(enc_list(v) + tail) == Some((nf(v), tail)), nf(v) = the recognised entries grouped by
# ascending satellite, each group in list order, biases re-read from their fields.
RE_DEC = re.compile(
    r'^let mut value = DataVec::<(?P<E>\w+), (?P<CAP>\w+)>::new\(\); let sat_num = par\.parse::<U8>\((?P<SNW>\d+)\)\?; '
    r'for _ in 0\.\.sat_num \{ let satellite_id = par\.parse::<U8>\((?P<SW>\d+)\)\?; let bias_num = par\.parse::<U8>\((?P<NBW>\d+)\)\?; '
    r'for _ in 0\.\.bias_num \{ if let Some\(signal_id\) = to_sig\(par\.parse::<U8>\((?P<SIGW>\d+)\)\?\) \{ let bias = par\.parse::<I16>\((?P<BW>\d+)\)\? as f32; '
    r'if value\.len\(\) >= (?P<CAP2>\w+) \{ return Err\(RtcmError::CapacityExceeded\); \} '
    r'value\.push\((?P=E) \{ satellite_id, signal_id, bias_m: bias \* (?P<RES>[0-9.]+), \}\); \} \} \} Ok\(value\)$')

DSPEC = '''
pub open spec fn deq(q: i16) -> f32 { crate::f32_mul_spec(crate::i16_to_f32_spec(q), %(RES)sf32) }
// the decoder as a function of the remaining bits: m entries of satellite s / n satellite groups / the whole list
pub open spec fn dec_entries(w: Seq<bool>, s: u8, m: nat, acc: Seq<%(E)s>) -> Option<(Seq<%(E)s>, Seq<bool>)> decreases m {
    if m == 0 { Some((acc, w)) }
    else if w.len() < 5 { None }
    else {
        let id = crate::uval(w.subrange(0, 5)) as u8;
        let w1 = w.subrange(5, w.len() as int);
        match to_sig_spec(id) {
            None => dec_entries(w1, s, (m - 1) as nat, acc),
            Some(sig) =>
                if w1.len() < %(BW)d || acc.len() >= %(CAP)s { None }
                else { dec_entries(w1.subrange(%(BW)d, w1.len() as int), s, (m - 1) as nat,
                                   acc.push(%(E)s { satellite_id: s, signal_id: sig, bias_m: deq(crate::sval(w1.subrange(0, %(BW)d))) })) },
        }
    }
}
pub open spec fn dec_groups(w: Seq<bool>, n: nat, acc: Seq<%(E)s>) -> Option<(Seq<%(E)s>, Seq<bool>)> decreases n {
    if n == 0 { Some((acc, w)) }
    else if w.len() < %(SW5)d { None }
    else {
        let s = crate::uval(w.subrange(0, %(SW)d)) as u8;
        let m = crate::uval(w.subrange(%(SW)d, %(SW5)d)) as nat;
        match dec_entries(w.subrange(%(SW5)d, w.len() as int), s, m, acc) {
            None => None,
            Some(x) => dec_groups(x.1, (n - 1) as nat, x.0),
        }
    }
}
pub open spec fn dec_list(w: Seq<bool>) -> Option<(Seq<%(E)s>, Seq<bool>)> {
    if w.len() < 6 { None } else { dec_groups(w.subrange(6, w.len() as int), crate::uval(w.subrange(0, 6)) as nat, Seq::<%(E)s>::empty()) }
}
pub proof fn lemma_parsed_is_uval(w: Seq<bool>, n: nat)
    requires n <= w.len(), n <= 8,
    ensures forall|x: u8| #![trigger crate::bits_of_int(x as int, n)] crate::bits_of_int(x as int, n) == w.subrange(0, n as int) && (x as int) < crate::pow2(n) ==> x as int == crate::uval(w.subrange(0, n as int)),
{
    assert forall|x: u8| #![trigger crate::bits_of_int(x as int, n)] crate::bits_of_int(x as int, n) == w.subrange(0, n as int) && (x as int) < crate::pow2(n) implies x as int == crate::uval(w.subrange(0, n as int)) by {
        crate::lemma_uval_bits(x as int, n);
    }
}
'''

DINV_A = '''    invariant
        verif_s0 == old(par).rest(), verif_s0.len() >= 6, sat_num as int == crate::uval(verif_s0.subrange(0, 6)),
        value@.len() <= %(CAP)s,
        dec_list(verif_s0) == dec_groups(par.rest(), (sat_num - verif_i0) as nat, value@),'''

DINV_B = '''    invariant
        verif_s0 == old(par).rest(), value@.len() <= %(CAP)s, verif_i0 < sat_num,
        dec_list(verif_s0) == (match dec_entries(par.rest(), satellite_id, (bias_num - verif_i1) as nat, value@) {
            None => None::<(Seq<%(E)s>, Seq<bool>)>,
            Some(x) => dec_groups(x.1, (sat_num - verif_i0 - 1) as nat, x.0),
        }),'''


def emit_decode(vf, exp, path, fr, ind):
    m = RE_DEC.match(fr.dec_body)
    if not m:
        raise ToolLimit('%s: decode does not have the expected shape: %s' % (fr.name, fr.dec_body[:300]))
    C = m.groupdict()
    D = dict(STANDARD[fr.name]); D['E'] = C['E']; D['CAP'] = C['CAP']     # CAP: the capacity constant of the list type itself
    D['SW5'] = D['SW'] + 5; D['B5'] = D['BW'] + 5
    pid = fr.name
    # to_sig: real text + spec twin (constructor calls replaced by the tuple struct literal they are proved to build)
    vgen.emit_spec_twin(vf, exp, path + ['fn:to_sig'], 'to_sig_spec', indent=ind, replace=[(r'(\w+SigId)::new\(', r'\1(')])
    vf.rewrites.append('X8 %s::to_sig spec twin: SigId::new(b, a) replaced by the tuple struct SigId(b, a) it is proved to return' % pid)
    sp = FnSpec(); sp.ret = 'r'; sp.body_props = {'C16', 'C02'}
    sp.ensures = [('l2.%s.to_sig.twin' % pid, {'C16'}, 'r == to_sig_spec(id)')]
    vgen.emit_fn(vf, exp, path + ['fn:to_sig'], sp, label='df::dfs::%s::to_sig' % pid, indent=ind, keep_pub=True)
    vf.emit('\n'.join(ind + l for l in (DSPEC % D).split('\n')))
    sp = FnSpec(); sp.ret = 'r'; sp.body_props = {'C16', 'C02'}
    sp.rename = 'decode_checked'
    sp.attrs = '#[verifier::rlimit(150)]'
    sp.replace = [
        (r'\b(asm|par)\.(put|parse)::<(\w+)>\(', r'\1.\2_\3(', 'R6 generic L0 call monomorphised'),
        (r'par\.parse_I16\((\d+)\)\? as f32', r'crate::verif_i16_to_f32(par.parse_I16(\1)?)', 'RF int->f32 cast abstracted (cannot panic)'),
        (r'bias_m: bias \* ([0-9.]+)', r'bias_m: crate::verif_f32_mul(bias, \1)', 'RF float multiplication abstracted (cannot panic)'),
    ]
    sp.ensures = [
        ('l2.%s.decode.never_exceeds_capacity' % pid, {'C16', 'C02'}, 'r is Ok ==> r->Ok_0@.len() <= %(CAP)s' % D),
        ('l2.%s.decode.is_the_spec_parser' % pid, {'C16', 'C01'},
         '(r is Ok) == (dec_list(old(par).rest()) is Some)\n'
         '    && (r is Ok ==> r->Ok_0@ == dec_list(old(par).rest())->Some_0.0 && final(par).rest() == dec_list(old(par).rest())->Some_0.1)'),
        ('l2.%s.decode.error_kinds' % pid, {'C16', 'C02'}, 'r is Err ==> (r->Err_0 is BufferOverflow || r->Err_0 is CapacityExceeded)'),
    ]
    A = sp.inserts.append
    A(('before', 'let sat_num = par.parse_U8(%s)?;' % C['SNW'], 0, 'let ghost verif_s0 = par.rest();\nproof { if verif_s0.len() >= 6 { lemma_parsed_is_uval(verif_s0, 6); } }'))
    sp.loops[0] = DINV_A % D
    sp.loopbodies[0] = ('let ghost verif_w = par.rest();\nproof { if verif_w.len() >= %(SW)d { lemma_parsed_is_uval(verif_w, %(SW)d); } '
                        'if verif_w.len() >= %(SW5)d { lemma_parsed_is_uval(verif_w.subrange(%(SW)d, verif_w.len() as int), 5); '
                        'assert(verif_w.subrange(%(SW)d, verif_w.len() as int).subrange(0, 5) =~= verif_w.subrange(%(SW)d, %(SW5)d)); '
                        'assert(verif_w.subrange(%(SW)d, verif_w.len() as int).subrange(5, verif_w.len() - %(SW)d) =~= verif_w.subrange(%(SW5)d, verif_w.len() as int)); } }' % D)
    sp.loops[1] = DINV_B % D
    sp.loopbodies[1] = ('let ghost verif_u = par.rest(); let ghost verif_a = value@;\nproof { if verif_u.len() >= 5 { lemma_parsed_is_uval(verif_u, 5); } '
                        'if verif_u.len() >= %(B5)d { let u1 = verif_u.subrange(5, verif_u.len() as int); assert(u1.subrange(%(BW)d, u1.len() as int) =~= verif_u.subrange(%(B5)d, verif_u.len() as int)); } }' % D)
    vgen.emit_fn(vf, exp, path + ['fn:decode'], sp, label='df::dfs::%s::decode' % pid, indent=ind, keep_pub=True)
    # ---- pure lemmas: the spec parser inverts the spec encoder
    D['SIGT'] = re.search(r'signal_id:\s*(\w+)', exp.text[fr.struct.start:fr.struct.end]).group(1)
    vf.emit('\n'.join(ind + l for l in ((INVERSE + INVERSE2 + GROUPED) % D).split('\n')))
    for (name, text) in THEOREMS:
        vgen.emit_lemma(vf, 'l2.%s.%s' % (pid, name), {'C16', 'C01'}, '\n'.join(ind + l for l in (text % D).split('\n')))


INVERSE = '''
// ---- the spec parser inverts the spec encoder (pure lemmas; the code enters through encode_checked == enc_list and decode_checked == dec_list)
pub open spec fn redec(e: %(E)s) -> %(E)s {
    %(E)s { satellite_id: e.satellite_id, signal_id: e.signal_id, bias_m: deq(crate::sval(crate::sbits(crate::bias_q(e.bias_m, %(RES)sf32) as int, %(BW)d))) }
}
pub open spec fn gent(v: Seq<%(E)s>, s: int, k: nat) -> Seq<%(E)s> decreases k {
    if k == 0 { Seq::<%(E)s>::empty() }
    else if v[k - 1].satellite_id == s && recognised(v[k - 1]) { gent(v, s, (k - 1) as nat).push(redec(v[k - 1])) }
    else { gent(v, s, (k - 1) as nat) }
}
pub open spec fn gents(v: Seq<%(E)s>, t: nat) -> Seq<%(E)s> decreases t {
    if t == 0 { Seq::<%(E)s>::empty() }
    else if present(v, v.len() as int, t - 1) { gents(v, (t - 1) as nat) + gent(v, t - 1, v.len()) }
    else { gents(v, (t - 1) as nat) }
}
// the list a decoder returns for the encoding of v: recognised entries grouped by ascending satellite, each group in list order
pub open spec fn nf(v: Seq<%(E)s>) -> Seq<%(E)s> { gents(v, %(NB)d) }
// recognised entries with satellite < t among the first k list elements, in list order, as decoded
pub open spec fn sel(v: Seq<%(E)s>, t: int, k: nat) -> Seq<%(E)s> decreases k {
    if k == 0 { Seq::<%(E)s>::empty() }
    else if v[k - 1].satellite_id < t && recognised(v[k - 1]) { sel(v, t, (k - 1) as nat).push(redec(v[k - 1])) }
    else { sel(v, t, (k - 1) as nat) }
}
pub proof fn lemma_table(g: %(SIGT)s)
    requires to_id_spec(g) is Some,
    ensures to_id_spec(g)->Some_0 < 32, to_sig_spec(to_id_spec(g)->Some_0) == Some(g),
{}
pub proof fn lemma_gent_len(v: Seq<%(E)s>, s: int, k: nat)
    ensures gent(v, s, k).len() == gcnt(v, s, k),
    decreases k
{ if k > 0 { lemma_gent_len(v, s, (k - 1) as nat); } }
pub proof fn lemma_gent_absent(v: Seq<%(E)s>, s: int, k: nat)
    requires k <= v.len(), !present(v, k as int, s),
    ensures gent(v, s, k) == Seq::<%(E)s>::empty(),
    decreases k
{
    if k > 0 {
        assert(v[k - 1].satellite_id != s) by { if v[k - 1].satellite_id == s { assert(present(v, k as int, s)); } }
        assert(!present(v, k - 1, s)) by { if present(v, k - 1, s) { let j = choose|j: int| 0 <= j < k - 1 && #[trigger] v[j].satellite_id == s; assert(0 <= j < k && v[j].satellite_id == s); } }
        lemma_gent_absent(v, s, (k - 1) as nat);
    }
}
// counting: the groups together never hold more entries than the list
pub open spec fn cnt_sat(v: Seq<%(E)s>, s: int, k: nat) -> nat decreases k { if k == 0 { 0 } else { cnt_sat(v, s, (k - 1) as nat) + (if v[k - 1].satellite_id == s { 1nat } else { 0nat }) } }
pub open spec fn cnt_lt(v: Seq<%(E)s>, t: int, k: nat) -> nat decreases k { if k == 0 { 0 } else { cnt_lt(v, t, (k - 1) as nat) + (if v[k - 1].satellite_id < t { 1nat } else { 0nat }) } }
pub proof fn lemma_count_a(v: Seq<%(E)s>, s: int, k: nat) ensures gcnt(v, s, k) <= cnt_sat(v, s, k) decreases k { if k > 0 { lemma_count_a(v, s, (k - 1) as nat); } }
pub proof fn lemma_count_b(v: Seq<%(E)s>, t: int, k: nat) ensures cnt_lt(v, t + 1, k) == cnt_lt(v, t, k) + cnt_sat(v, t, k), cnt_lt(v, t, k) <= k, cnt_lt(v, 0, k) == 0 decreases k { if k > 0 { lemma_count_b(v, t, (k - 1) as nat); } }
pub proof fn lemma_gents_len(v: Seq<%(E)s>, t: nat)
    ensures gents(v, t).len() <= cnt_lt(v, t as int, v.len()), gents(v, t).len() <= v.len(),
    decreases t
{
    lemma_count_b(v, t as int, v.len());
    if t > 0 {
        lemma_gents_len(v, (t - 1) as nat);
        lemma_count_b(v, t - 1, v.len());
        lemma_gent_len(v, t - 1, v.len()); lemma_count_a(v, t - 1, v.len());
    }
}
pub proof fn lemma_dec_entries(v: Seq<%(E)s>, s: u8, k: nat, tail: Seq<bool>, m: nat, acc: Seq<%(E)s>)
    requires k <= v.len(), acc.len() + gcnt(v, s as int, k) <= %(CAP)s,
    ensures dec_entries(gbits(v, s as int, k) + tail, s, gcnt(v, s as int, k) + m, acc) == dec_entries(tail, s, m, acc + gent(v, s as int, k)),
    decreases k
{
    if k == 0 {
        assert(gbits(v, s as int, 0) + tail =~= tail); assert(acc + gent(v, s as int, 0) =~= acc);
    } else {
        let e = v[k - 1];
        if e.satellite_id == s && recognised(e) {
            let x = entry_bits(e);
            let k1 = (k - 1) as nat;
            assert(gbits(v, s as int, k) + tail =~= gbits(v, s as int, k1) + (x + tail));
            lemma_dec_entries(v, s, k1, x + tail, m + 1, acc);
            let acc1 = acc + gent(v, s as int, k1);
            let w = x + tail;
            let id = to_id_spec(e.signal_id)->Some_0;
            lemma_table(e.signal_id);
            crate::lemma_bits_len(id as int, 5);
            assert(crate::pow2(5) == 32) by(compute);
            crate::lemma_uval_bits(id as int, 5);
            let sb = crate::sbits(crate::bias_q(e.bias_m, %(RES)sf32) as int, %(BW)d);
            crate::axiom_sbits_len(crate::bias_q(e.bias_m, %(RES)sf32) as int, %(BW)d);
            assert(w.subrange(0, 5) =~= crate::bits_of_int(id as int, 5));
            let w1 = w.subrange(5, w.len() as int);
            assert(w1 =~= sb + tail);
            assert(w1.subrange(0, %(BW)d) =~= sb);
            assert(w1.subrange(%(BW)d, w1.len() as int) =~= tail);
            lemma_gent_len(v, s as int, k1);
            assert(acc1.push(redec(e)) =~= acc + gent(v, s as int, k));
            assert(redec(e).satellite_id == s);
        } else {
            lemma_dec_entries(v, s, (k - 1) as nat, tail, m, acc);
        }
    }
}
pub proof fn lemma_dec_groups(v: Seq<%(E)s>, t: nat, tail: Seq<bool>, m: nat, acc: Seq<%(E)s>)
    requires t <= %(NB)d, counts_fit(v), acc.len() + gents(v, t).len() <= %(CAP)s,
    ensures dec_groups(groups(v, t) + tail, nsat(v, t) + m, acc) == dec_groups(tail, m, acc + gents(v, t)),
    decreases t
{
    if t == 0 {
        assert(groups(v, 0) + tail =~= tail); assert(acc + gents(v, 0) =~= acc);
    } else {
        let s = (t - 1) as int;
        let t1 = (t - 1) as nat;
        if present(v, v.len() as int, s) {
            let g = group(v, s);
            assert(groups(v, t) + tail =~= groups(v, t1) + (g + tail));
            lemma_dec_groups(v, t1, g + tail, m + 1, acc);
            let acc1 = acc + gents(v, t1);
            let w = g + tail;
            let c = gcnt(v, s, v.len());
            assert(c <= 31);
            crate::lemma_bits_len(s, %(SW)d); crate::lemma_bits_len(c as int, 5);
            assert(crate::pow2(5) == 32 && crate::pow2(%(SW)d) == %(NB)d) by(compute);
            crate::lemma_uval_bits(s, %(SW)d); crate::lemma_uval_bits(c as int, 5);
            assert(w.subrange(0, %(SW)d) =~= crate::bits_of_int(s, %(SW)d));
            assert(w.subrange(%(SW)d, %(SW5)d) =~= crate::bits_of_int(c as int, 5));
            assert(w.subrange(%(SW5)d, w.len() as int) =~= gbits(v, s, v.len()) + tail);
            lemma_gent_len(v, s, v.len());
            lemma_dec_entries(v, s as u8, v.len(), tail, 0, acc1);
            assert(acc1 + gent(v, s, v.len()) =~= acc + gents(v, t));
        } else {
            lemma_dec_groups(v, t1, tail, m, acc);
        }
    }
}
'''

GROUPED = '''
pub open spec fn grouped(l: Seq<%(E)s>) -> bool { forall|i: int, j: int| 0 <= i < j < l.len() ==> (#[trigger] l[i]).satellite_id <= (#[trigger] l[j]).satellite_id }
pub proof fn lemma_gent_sat(v: Seq<%(E)s>, s: int, k: nat)
    ensures forall|i: int| 0 <= i < gent(v, s, k).len() ==> (#[trigger] gent(v, s, k)[i]).satellite_id == s,
    decreases k
{
    if k > 0 {
        lemma_gent_sat(v, s, (k - 1) as nat);
        let g0 = gent(v, s, (k - 1) as nat);
        assert forall|i: int| 0 <= i < gent(v, s, k).len() implies (#[trigger] gent(v, s, k)[i]).satellite_id == s by {
            if v[k - 1].satellite_id == s && recognised(v[k - 1]) {
                if i < g0.len() { assert(gent(v, s, k)[i] == g0[i]); } else { assert(gent(v, s, k)[i] == redec(v[k - 1])); }
            }
        }
    }
}
pub proof fn lemma_gents_grouped(v: Seq<%(E)s>, t: nat)
    ensures grouped(gents(v, t)), forall|i: int| 0 <= i < gents(v, t).len() ==> (#[trigger] gents(v, t)[i]).satellite_id < t,
    decreases t
{
    if t > 0 {
        lemma_gents_grouped(v, (t - 1) as nat);
        lemma_gent_sat(v, t - 1, v.len());
    }
}
'''

THEOREMS = [
    ('decode_inverts_encode', '''pub proof fn lemma_decode_inverts_encode(v: Seq<%(E)s>, tail: Seq<bool>)
    requires counts_fit(v), v.len() <= %(CAP)s,
    ensures dec_list(enc_list(v) + tail) == Some((nf(v), tail)),
{
    let n = nsat(v, %(NB)d);
    let w = enc_list(v) + tail;
    crate::lemma_bits_len(n as int, 6);
    assert(crate::pow2(6) == 64) by(compute);
    crate::lemma_uval_bits(n as int, 6);
    assert(w.subrange(0, 6) =~= crate::bits_of_int(n as int, 6));
    assert(w.subrange(6, w.len() as int) =~= groups(v, %(NB)d) + tail);
    lemma_gents_len(v, %(NB)d);
    lemma_dec_groups(v, %(NB)d, tail, 0, Seq::<%(E)s>::empty());
    assert(Seq::<%(E)s>::empty() + gents(v, %(NB)d) =~= nf(v));
}'''),
    ('same_multiset', '''pub proof fn lemma_nf_multiset(v: Seq<%(E)s>, t: nat)
    requires t <= %(NB)d,
    ensures gents(v, t).to_multiset() == sel(v, t as int, v.len()).to_multiset(),
    decreases t
{
    if t == 0 {
        lemma_sel_zero(v, v.len());
    } else {
        let t1 = (t - 1) as nat;
        lemma_nf_multiset(v, t1);
        lemma_sel_step(v, t1 as int, v.len());
        if !present(v, v.len() as int, t1 as int) { lemma_gent_absent(v, t1 as int, v.len()); assert(gents(v, t1) + Seq::<%(E)s>::empty() =~= gents(v, t1)); }
        vstd::seq_lib::lemma_multiset_commutative(gents(v, t1), gent(v, t1 as int, v.len()));
        assert(gents(v, t) =~= gents(v, t1) + gent(v, t1 as int, v.len()));
    }
}'''),
    ('c16_statement', '''pub proof fn lemma_c16_statement(v: Seq<%(E)s>, tail: Seq<bool>)
    requires counts_fit(v), v.len() <= %(CAP)s,
    ensures ({
        let d = dec_list(enc_list(v) + tail);
        &&& d is Some && d->Some_0.1 == tail
        &&& d->Some_0.0.to_multiset() == sel(v, %(NB)d, v.len()).to_multiset()     // every recognised entry exactly once (satellites below %(NB)d: all the encoder accepts)
        &&& grouped(d->Some_0.0)                                                    // grouped by ascending satellite
        &&& d->Some_0.0.len() <= v.len()
    }),
{
    lemma_decode_inverts_encode(v, tail);
    lemma_nf_multiset(v, %(NB)d);
    lemma_gents_grouped(v, %(NB)d);
    lemma_gents_len(v, %(NB)d);
}'''),
]

INVERSE2 = '''
pub proof fn lemma_sel_zero(v: Seq<%(E)s>, k: nat) ensures sel(v, 0, k) == Seq::<%(E)s>::empty() decreases k { if k > 0 { lemma_sel_zero(v, (k - 1) as nat); } }
pub proof fn lemma_sel_step(v: Seq<%(E)s>, t: int, k: nat)
    ensures sel(v, t + 1, k).to_multiset() == sel(v, t, k).to_multiset().add(gent(v, t, k).to_multiset()),
    decreases k
{
    broadcast use vstd::seq_lib::group_to_multiset_ensures;
    if k == 0 {
        assert(sel(v, t + 1, 0).to_multiset() =~= sel(v, t, 0).to_multiset().add(gent(v, t, 0).to_multiset()));
    } else {
        let k1 = (k - 1) as nat;
        lemma_sel_step(v, t, k1);
        let e = v[k - 1];
        assert(sel(v, t + 1, k).to_multiset() =~= sel(v, t, k).to_multiset().add(gent(v, t, k).to_multiset()));
    }
}
'''


# ---------------------------------------------------------------------------------------------------------------------
# 1230 (GLONASS code-phase biases): sort by signal, 4-bit signal mask, one 16-bit bias per entry in sorted order.
RE_ENC_1230 = re.compile(
    r"^let mut sig_mask: u8 = 0; let mut value = value\.clone\(\); let slice = value\.as_mut_slice\(\); slice\.sort_unstable_by\((?P<clo>.+?)\); "
    r"for v in slice\.iter\(\) \{ let sig_id = v\.signal_id; match \(sig_id\.band\(\), sig_id\.attribute\(\)\) \{ "
    r"\((?P<b0>\d+), '(?P<a0>.)'\) => \{ sig_mask \|= (?P<m0>[^;]+); \} \((?P<b1>\d+), '(?P<a1>.)'\) => \{ sig_mask \|= (?P<m1>[^;]+); \} "
    r"\((?P<b2>\d+), '(?P<a2>.)'\) => \{ sig_mask \|= (?P<m2>[^;]+); \} \((?P<b3>\d+), '(?P<a3>.)'\) => \{ sig_mask \|= (?P<m3>[^;]+); \} "
    r"_ => \{ return Err\(RtcmError::InvalidSignalId\); \} \} \} asm\.put::<U8>\(sig_mask, (?P<MW>\d+)\)\?; "
    r"for v in slice\.iter\(\) \{ let mut bias = v\.bias_m; bias /= (?P<RES>[0-9.]+); let bias = if bias > 0\.0 \{ bias \+ 0\.5 \} else \{ bias - 0\.5 \} as i16; "
    r"asm\.put::<I16>\(bias, (?P<BW>\d+)\)\?; \} Ok\(\(\)\)$")

SPEC_1230 = '''
// RTCM 10403.3 message 1230: 4-bit FDMA signals mask, most significant bit first: L1 C/A, L1 P, L2 C/A, L2 P; then one 16-bit bias (0.02 m) per set bit
pub open spec fn idx(g: GloSigId) -> Option<int> {
    if g.0 == 1 && g.1 == 'C' { Some(0int) } else if g.0 == 1 && g.1 == 'P' { Some(1int) } else if g.0 == 2 && g.1 == 'C' { Some(2int) } else if g.0 == 2 && g.1 == 'P' { Some(3int) } else { None }
}
pub open spec fn sig_at(i: int) -> GloSigId { if i == 0 { GloSigId(1, 'C') } else if i == 1 { GloSigId(1, 'P') } else if i == 2 { GloSigId(2, 'C') } else { GloSigId(2, 'P') } }
pub open spec fn sbit(i: int) -> u8 { if i == 0 { 8u8 } else if i == 1 { 4u8 } else if i == 2 { 2u8 } else { 1u8 } }
pub open spec fn mor(p: Seq<%(E)s>, k: nat) -> u8 decreases k { if k == 0 { 0u8 } else { mor(p, (k - 1) as nat) | sbit(idx(p[k - 1].signal_id)->Some_0) } }
pub open spec fn cat(p: Seq<%(E)s>, k: nat) -> Seq<bool> decreases k {
    if k == 0 { Seq::<bool>::empty() } else { cat(p, (k - 1) as nat) + crate::sbits(crate::bias_q(p[k - 1].bias_m, 0.02f32) as int, 16) }
}
pub open spec fn all_rec(p: Seq<%(E)s>, k: int) -> bool { forall|j: int| 0 <= j < k ==> idx((#[trigger] p[j]).signal_id) is Some }
pub open spec fn sorted_sig(p: Seq<%(E)s>) -> bool { forall|i: int, j: int| 0 <= i < j < p.len() ==> cmp_spec((#[trigger] p[i]).signal_id, (#[trigger] p[j]).signal_id) != core::cmp::Ordering::Greater }
pub open spec fn enc1230(p: Seq<%(E)s>) -> Seq<bool> { crate::bits_of_int(mor(p, p.len()) as int, 4) + cat(p, p.len()) }
pub proof fn lemma_mor_lt16(p: Seq<%(E)s>, k: nat)
    ensures mor(p, k) < 16,
    decreases k
{
    if k > 0 {
        lemma_mor_lt16(p, (k - 1) as nat);
        let m = mor(p, (k - 1) as nat); let y = sbit(idx(p[k - 1].signal_id)->Some_0);
        assert((m | y) < 16u8) by(bit_vector) requires m < 16u8, y == 1u8 || y == 2u8 || y == 4u8 || y == 8u8;
    }
}
// the decoder as a function of the remaining bits
pub open spec fn deq2(q: i16) -> f32 { crate::f32_scale_spec(q, 0.02f32) }
pub open spec fn dec_f(w: Seq<bool>, mask: u8, i: nat, acc: Seq<%(E)s>) -> Option<(Seq<%(E)s>, Seq<bool>)> decreases 4 - i {
    if i >= 4 { Some((acc, w)) }
    else if mask & sbit(i as int) != 0 {
        if w.len() < 16 { None }
        else { dec_f(w.subrange(16, w.len() as int), mask, i + 1, acc.push(%(E)s { signal_id: sig_at(i as int), bias_m: deq2(crate::sval(w.subrange(0, 16))) })) }
    } else { dec_f(w, mask, i + 1, acc) }
}
pub open spec fn dec1230(w: Seq<bool>) -> Option<(Seq<%(E)s>, Seq<bool>)> {
    if w.len() < 4 { None } else { dec_f(w.subrange(4, w.len() as int), crate::uval(w.subrange(0, 4)) as u8, 0, Seq::<%(E)s>::empty()) }
}
'''


def is_1230(fr):
    return fr.name == 'df_msg1230_biases'


def emit_1230(vf, exp, path, fr, ind):
    m = RE_ENC_1230.match(fr.enc_body)
    if not m:
        raise ToolLimit('%s: encode does not have the expected shape: %s' % (fr.name, fr.enc_body[:300]))
    C = m.groupdict()
    E = fr.struct.name
    pid = fr.name
    D = {'E': E}
    vf.emit(ind + '#[allow(unused_imports)] use crate::msg::msm_mappings::glo::{cmp_spec, sig_cmp, lemma_total_order};')
    vf.emit('\n'.join(ind + l for l in (SPEC_1230 % D).split('\n')))
    # ---- encode_checked
    sp = FnSpec(); sp.ret = 'r'; sp.body_props = P
    sp.rename = 'encode_checked'
    sp.attrs = '#[verifier::rlimit(100)]'
    sp.replace = [
        (r'\b(asm|par)\.(put|parse)::<(\w+)>\(', r'\1.\2_\3(', 'R6 generic L0 call monomorphised'),
        (r'(?s)slice\s*\.\s*sort_unstable_by\s*\(\s*\|a, b\|\s*(?P<body>.*?)\)\s*;(?=\s*for v in slice)',
         lambda mm: 'slice.sort_unstable_by(|a: &%s, b: &%s| -> (o: core::cmp::Ordering) ensures o == cmp_spec(a.signal_id, b.signal_id) { %s });' % (E, E, mm.group('body').strip()),
         'R9 closure comparator annotated: parameter types, result name and `ensures o == cmp_spec(..)`'),
        (r'(\w+)\.signal_id\.cmp\(&(\w+)\.signal_id\)', r'sig_cmp(&\1.signal_id, &\2.signal_id)', 'X6 <SigId as Ord>::cmp called as the free function sig_cmp'),
        (r'let mut bias = v\.bias_m;\s*bias /= ([0-9.]+);\s*let bias =\s*if bias > 0\.0 \{ bias \+ 0\.5 \} else \{ bias - 0\.5 \} as i16;',
         r'let bias = crate::verif_bias_quant(v.bias_m, \1);', 'RF float quantiser abstracted by an uninterpreted helper; its arithmetic is decided by engine S'),
    ]
    sp.requires = [('l2.%s.encode.pre' % pid, set(), 'old(asm).cap() <= 0x100_0000_0000')]
    sp.ensures = [
        ('l2.%s.encode.frame' % pid, P, 'final(asm).cap() == old(asm).cap() && final(asm).poison() == old(asm).poison()'),
        ('l2.%s.encode.append_only' % pid, P, 'final(asm).bits().len() >= old(asm).bits().len() && final(asm).bits().subrange(0, old(asm).bits().len() as int) == old(asm).bits()'),
        ('l2.%s.encode.error_kinds' % pid, P, 'r is Err ==> (r->Err_0 is BufferOverflow || r->Err_0 is InvalidSignalId)'),
        ('l2.%s.encode.unrecognised_signal_rejected' % pid, {'C16'},
         'r is Ok ==> forall|j: int| 0 <= j < value@.len() ==> idx((#[trigger] value@[j]).signal_id) is Some'),
        ('l2.%s.encode.mask_then_sorted_biases' % pid, {'C16', 'C01'},
         'r is Ok ==> exists|p: Seq<%s>| #![trigger enc1230(p)] p.to_multiset() == value@.to_multiset() && sorted_sig(p) && all_rec(p, p.len() as int)\n'
         '    && final(asm).bits() == old(asm).bits() + enc1230(p)' % E),
    ]
    A = sp.inserts.append
    A(('before', 'let mut sig_mask: u8 = 0;', 0, 'let ghost verif_v0 = value@; let ghost vb0 = asm.bits();'))
    A(('after', 'slice.sort_unstable_by', 0,
       'let ghost verif_p = slice@;\nproof { assert(verif_p.to_multiset() == verif_v0.to_multiset()); assert(sorted_sig(verif_p)); '
       'assert((1u8 << 3u8) == 8u8 && (1u8 << 2u8) == 4u8 && (1u8 << 1u8) == 2u8) by(bit_vector); }'))
    sp.loops[0] = '''    invariant
        slice@ == verif_p, verif_k0 <= verif_p.len(), all_rec(verif_p, verif_k0 as int), sig_mask == mor(verif_p, verif_k0 as nat),
        asm.bits() == vb0, vb0 == old(asm).bits(), asm.cap() == old(asm).cap(), asm.poison() == old(asm).poison(), asm.cap() <= 0x100_0000_0000,
        (1u8 << 3u8) == 8u8 && (1u8 << 2u8) == 4u8 && (1u8 << 1u8) == 2u8,
    decreases slice.len() - verif_k0,'''
    after0 = ('''proof {
    broadcast use vstd::seq_lib::group_to_multiset_ensures;
    lemma_mor_lt16(verif_p, verif_p.len());
    assert forall|j: int| 0 <= j < verif_v0.len() implies idx((#[trigger] verif_v0[j]).signal_id) is Some by {
        assert(verif_v0.contains(verif_v0[j]));
        assert(verif_v0.to_multiset().count(verif_v0[j]) > 0);
        assert(verif_p.to_multiset().count(verif_v0[j]) > 0);
        assert(verif_p.contains(verif_v0[j]));
        let i = choose|i: int| 0 <= i < verif_p.len() && verif_p[i] == verif_v0[j];
        assert(idx(verif_p[i].signal_id) is Some);
    }
}''')
    A(('before', 'asm.put_U8(sig_mask, %s)?;' % C['MW'], 0, after0))
    A(('after', 'asm.put_U8(sig_mask, %s)?;' % C['MW'], 0, 'let ghost vb1 = asm.bits();\nproof { assert(asm.bits() =~= vb1 + cat(verif_p, 0)); }'))
    sp.loops[1] = '''    invariant
        slice@ == verif_p, verif_k1 <= verif_p.len(),
        asm.cap() == old(asm).cap(), asm.poison() == old(asm).poison(), asm.cap() <= 0x100_0000_0000,
        vb0 == old(asm).bits(), vb1 == vb0 + crate::bits_of_int(mor(verif_p, verif_p.len()) as int, 4),
        asm.bits() == vb1 + cat(verif_p, verif_k1 as nat),
    decreases slice.len() - verif_k1,'''
    sp.loopbodies[1] = 'proof { assert(asm.bits().subrange(0, vb0.len() as int) =~= vb0); }'
    A(('after', 'asm.put_I16(bias, %s)?;' % C['BW'], 0,
       'proof { assert(asm.bits() =~= vb1 + (cat(verif_p, verif_k1 as nat) + crate::sbits(crate::bias_q(verif_p[verif_k1 as int].bias_m, 0.02f32) as int, 16))); }'))
    A(('before', 'Ok(())', 0, 'proof { assert(asm.bits() =~= vb0 + enc1230(verif_p)); assert(asm.bits().subrange(0, vb0.len() as int) =~= vb0); }'))
    vgen.emit_fn(vf, exp, path + ['fn:encode'], sp, label='df::dfs::%s::encode' % pid, indent=ind, keep_pub=True)


def emit_1230_decode(vf, exp, path, fr, ind):
    """decode_checked of 1230: real text == the spec parser dec1230 (plus capacity / panic-freedom)"""
    pid = fr.name
    E = fr.struct.name
    for c in fr.mod.children:
        if c.kind == 'fn' and c.name == 'to_sig':
            sp = FnSpec(); sp.ret = 'r'; sp.body_props = {'C16', 'C02'}
            vgen.emit_fn(vf, exp, path + ['fn:to_sig'], sp, label='%s::to_sig' % fr.name, indent=ind, keep_pub=True)
    sp = FnSpec(); sp.ret = 'r'; sp.body_props = {'C16', 'C02'}
    sp.rename = 'decode_checked'
    sp.attrs = '#[verifier::rlimit(100)]'
    sp.replace = [
        (r'\b(asm|par)\.(put|parse)::<(\w+)>\(', r'\1.\2_\3(', 'R6 generic L0 call monomorphised'),
        (r'\(par\.parse_I16\((\d+)\)\? as f32\) \* ([0-9.]+)', r'crate::verif_f32_scale(par.parse_I16(\1)?, \2)', 'RF float arithmetic (int->f32 cast and multiplication by a constant; cannot panic) abstracted by an uninterpreted helper'),
        (r'::core::panicking::panic\("internal error: entered unreachable code"\),?', 'unreachable!(),', 'RX expansion of unreachable!() folded back'),
    ]
    sp.ensures = [
        ('l2.%s.decode.never_exceeds_capacity' % pid, {'C16', 'C02'}, 'r is Ok ==> r->Ok_0@.len() <= 4'),
        ('l2.%s.decode.is_the_spec_parser' % pid, {'C16', 'C01'},
         '(r is Ok) == (dec1230(old(par).rest()) is Some)\n'
         '    && (r is Ok ==> r->Ok_0@ == dec1230(old(par).rest())->Some_0.0 && final(par).rest() == dec1230(old(par).rest())->Some_0.1)'),
        ('l2.%s.decode.error_kinds' % pid, {'C16', 'C02'}, 'r is Err ==> r->Err_0 is BufferOverflow'),
    ]
    A = sp.inserts.append
    A(('before', 'let sig_mask: u8 = par.parse_U8(4)?;', 0,
       'let ghost verif_s0 = par.rest();\nproof { if verif_s0.len() >= 4 { assert forall|x: u8| #![trigger crate::bits_of_int(x as int, 4)] crate::bits_of_int(x as int, 4) == verif_s0.subrange(0, 4) && (x as int) < crate::pow2(4) '
       'implies x as int == crate::uval(verif_s0.subrange(0, 4)) by { crate::lemma_uval_bits(x as int, 4); } } '
       'assert((1u8 << 3u8) == 8u8 && (1u8 << 2u8) == 4u8 && (1u8 << 1u8) == 2u8 && (1u8 << 0u8) == 1u8) by(bit_vector); }'))
    sp.loops[0] = '''    invariant
        value@.len() <= i, i <= 4, verif_s0 == old(par).rest(), verif_s0.len() >= 4, sig_mask as int == crate::uval(verif_s0.subrange(0, 4)),
        (1u8 << 3u8) == 8u8 && (1u8 << 2u8) == 4u8 && (1u8 << 1u8) == 2u8 && (1u8 << 0u8) == 1u8,
        dec1230(verif_s0) == dec_f(par.rest(), sig_mask, i as nat, value@),'''
    sp.loopbodies[0] = ('let ghost verif_w = par.rest();\nproof { assert(i == 0 || i == 1 || i == 2 || i == 3); '
                        'if verif_w.len() >= 16 { assert(verif_w.subrange(16, verif_w.len() as int).len() == verif_w.len() - 16); } }')
    vgen.emit_fn(vf, exp, path + ['fn:decode'], sp, label='df::dfs::%s::decode' % pid, indent=ind, keep_pub=True)
    vf.emit('\n'.join(ind + l for l in (INVERSE_1230 % {'E': E}).split('\n')))
    vgen.emit_lemma(vf, 'l2.%s.decode_inverts_encode' % pid, {'C16', 'C01'}, '\n'.join(ind + l for l in (THEOREM_1230 % {'E': E}).split('\n')))


INVERSE_1230 = '''
// ---- the spec parser inverts the spec encoder on sorted lists of distinct recognised signals (pure lemmas)
pub open spec fn redec2(e: %(E)s) -> %(E)s { %(E)s { signal_id: e.signal_id, bias_m: deq2(crate::sval(crate::sbits(crate::bias_q(e.bias_m, 0.02f32) as int, 16))) } }
pub open spec fn strict(p: Seq<%(E)s>) -> bool { forall|i: int, j: int| 0 <= i < j < p.len() ==> idx((#[trigger] p[i]).signal_id)->Some_0 < idx((#[trigger] p[j]).signal_id)->Some_0 }
pub open spec fn distinct(p: Seq<%(E)s>) -> bool { forall|i: int, j: int| 0 <= i < j < p.len() ==> (#[trigger] p[i]).signal_id != (#[trigger] p[j]).signal_id }
pub open spec fn has_idx(p: Seq<%(E)s>, k: int, t: int) -> bool { exists|j: int| 0 <= j < k && idx((#[trigger] p[j]).signal_id) == Some(t) }
pub proof fn lemma_sig_table(g: GloSigId)
    requires idx(g) is Some,
    ensures 0 <= idx(g)->Some_0 < 4, sig_at(idx(g)->Some_0) == g,
        crate::msg::msm_mappings::glo::to_id_spec(g) is Some,
        crate::msg::msm_mappings::glo::to_id_spec(g)->Some_0 == (if idx(g)->Some_0 == 0 { 2u8 } else if idx(g)->Some_0 == 1 { 3u8 } else if idx(g)->Some_0 == 2 { 8u8 } else { 9u8 }),
{}
pub proof fn lemma_sorted_distinct_is_strict(p: Seq<%(E)s>)
    requires sorted_sig(p), all_rec(p, p.len() as int), distinct(p),
    ensures strict(p),
{
    assert forall|i: int, j: int| 0 <= i < j < p.len() implies idx((#[trigger] p[i]).signal_id)->Some_0 < idx((#[trigger] p[j]).signal_id)->Some_0 by {
        let a = p[i].signal_id; let b = p[j].signal_id;
        lemma_sig_table(a); lemma_sig_table(b);
        lemma_total_order(a, b, a);
        if idx(a)->Some_0 == idx(b)->Some_0 { assert(sig_at(idx(a)->Some_0) == sig_at(idx(b)->Some_0)); }
    }
}
pub proof fn lemma_cat_front(p: Seq<%(E)s>, k: nat)
    requires 1 <= k <= p.len(),
    ensures cat(p, k) == crate::sbits(crate::bias_q(p[0].bias_m, 0.02f32) as int, 16) + cat(p.subrange(1, p.len() as int), (k - 1) as nat),
    decreases k
{
    let q = p.subrange(1, p.len() as int);
    let h = crate::sbits(crate::bias_q(p[0].bias_m, 0.02f32) as int, 16);
    if k == 1 {
        assert(cat(p, 1) =~= cat(p, 0) + h);
        assert(cat(p, 1) =~= h + cat(q, 0));
    } else {
        lemma_cat_front(p, (k - 1) as nat);
        assert(q[k - 2] == p[k - 1]);
        let t = crate::sbits(crate::bias_q(p[k - 1].bias_m, 0.02f32) as int, 16);
        assert(cat(p, k) =~= h + (cat(q, (k - 2) as nat) + t));
    }
}
pub proof fn lemma_mor_bits(p: Seq<%(E)s>, k: nat, t: int)
    requires k <= p.len(), all_rec(p, p.len() as int), 0 <= t < 4,
    ensures (mor(p, k) & sbit(t) != 0) == has_idx(p, k as int, t),
    decreases k
{
    if k == 0 {
        let x = sbit(t);
        assert(0u8 & x == 0u8) by(bit_vector);
    } else {
        let k1 = (k - 1) as nat;
        lemma_mor_bits(p, k1, t);
        lemma_sig_table(p[k - 1].signal_id);
        let m = mor(p, k1); let y = sbit(idx(p[k - 1].signal_id)->Some_0); let x = sbit(t);
        assert((((m | y) & x) != 0u8) == (((m & x) != 0u8) || x == y)) by(bit_vector)
            requires (y == 1u8 || y == 2u8 || y == 4u8 || y == 8u8), (x == 1u8 || x == 2u8 || x == 4u8 || x == 8u8);
        assert((x == y) == (idx(p[k - 1].signal_id) == Some(t)));
        if has_idx(p, k as int, t) {
            let j = choose|j: int| 0 <= j < k && idx((#[trigger] p[j]).signal_id) == Some(t);
            if j < k1 { assert(has_idx(p, k1 as int, t)); }
        }
        if has_idx(p, k1 as int, t) {
            let j = choose|j: int| 0 <= j < k1 && idx((#[trigger] p[j]).signal_id) == Some(t);
            assert(0 <= j < k && idx(p[j].signal_id) == Some(t));
        }
        if idx(p[k - 1].signal_id) == Some(t) { assert(has_idx(p, k as int, t)); }
    }
}
pub proof fn lemma_dec_f(p: Seq<%(E)s>, mask: u8, i: nat, acc: Seq<%(E)s>, tail: Seq<bool>)
    requires
        i <= 4, all_rec(p, p.len() as int), strict(p), p.len() > 0 ==> idx(p[0].signal_id)->Some_0 >= i,
        forall|t: int| i <= t < 4 ==> ((mask & sbit(t) != 0) == has_idx(p, p.len() as int, t)),
    ensures dec_f(cat(p, p.len()) + tail, mask, i, acc) == Some((acc + p.map_values(|e: %(E)s| redec2(e)), tail)),
    decreases 4 - i
{
    let f = |e: %(E)s| redec2(e);
    if i >= 4 {
        if p.len() > 0 { lemma_sig_table(p[0].signal_id); }
        assert(p.len() == 0);
        assert(cat(p, 0) + tail =~= tail);
        assert(acc + p.map_values(f) =~= acc);
    } else if p.len() > 0 && idx(p[0].signal_id)->Some_0 == i {
        let q = p.subrange(1, p.len() as int);
        let h = crate::sbits(crate::bias_q(p[0].bias_m, 0.02f32) as int, 16);
        crate::axiom_sbits_len(crate::bias_q(p[0].bias_m, 0.02f32) as int, 16);
        lemma_cat_front(p, p.len());
        let w = cat(p, p.len()) + tail;
        assert(w =~= h + (cat(q, q.len()) + tail));
        assert(w.subrange(0, 16) =~= h);
        assert(w.subrange(16, w.len() as int) =~= cat(q, q.len()) + tail);
        assert(has_idx(p, p.len() as int, i as int));
        lemma_sig_table(p[0].signal_id);
        let e1 = %(E)s { signal_id: sig_at(i as int), bias_m: deq2(crate::sval(h)) };
        assert(e1 == redec2(p[0]));
        // the rest of the list starts above i
        assert(all_rec(q, q.len() as int)) by { assert forall|j: int| 0 <= j < q.len() implies idx((#[trigger] q[j]).signal_id) is Some by { assert(q[j] == p[j + 1]); } }
        assert(strict(q)) by { assert forall|a: int, b: int| 0 <= a < b < q.len() implies idx((#[trigger] q[a]).signal_id)->Some_0 < idx((#[trigger] q[b]).signal_id)->Some_0 by { assert(q[a] == p[a + 1] && q[b] == p[b + 1]); } }
        if q.len() > 0 { assert(q[0] == p[1]); }
        assert forall|t: int| i + 1 <= t < 4 implies ((mask & sbit(t) != 0) == has_idx(q, q.len() as int, t)) by {
            if has_idx(p, p.len() as int, t) { let j = choose|j: int| 0 <= j < p.len() && idx((#[trigger] p[j]).signal_id) == Some(t); assert(j >= 1); assert(q[j - 1] == p[j]); assert(has_idx(q, q.len() as int, t)); }
            if has_idx(q, q.len() as int, t) { let j = choose|j: int| 0 <= j < q.len() && idx((#[trigger] q[j]).signal_id) == Some(t); assert(q[j] == p[j + 1]); assert(has_idx(p, p.len() as int, t)); }
        }
        lemma_dec_f(q, mask, i + 1, acc.push(e1), tail);
        assert(acc.push(e1) + q.map_values(f) =~= acc + p.map_values(f));
    } else {
        // no entry has index i: the mask bit is clear
        assert(!has_idx(p, p.len() as int, i as int)) by {
            if has_idx(p, p.len() as int, i as int) { let j = choose|j: int| 0 <= j < p.len() && idx((#[trigger] p[j]).signal_id) == Some(i as int); if j > 0 { assert(idx(p[0].signal_id)->Some_0 < idx(p[j].signal_id)->Some_0); } }
        }
        lemma_dec_f(p, mask, i + 1, acc, tail);
    }
}
'''

THEOREM_1230 = '''pub proof fn lemma_c16_1230(p: Seq<%(E)s>, tail: Seq<bool>)
    requires sorted_sig(p), all_rec(p, p.len() as int), distinct(p),
    ensures dec1230(enc1230(p) + tail) == Some((p.map_values(|e: %(E)s| redec2(e)), tail)),
{
    lemma_sorted_distinct_is_strict(p);
    let m = mor(p, p.len());
    lemma_mor_lt16(p, p.len());
    let w = enc1230(p) + tail;
    crate::lemma_bits_len(m as int, 4);
    assert(crate::pow2(4) == 16) by(compute);
    crate::lemma_uval_bits(m as int, 4);
    assert(w.subrange(0, 4) =~= crate::bits_of_int(m as int, 4));
    assert(w.subrange(4, w.len() as int) =~= cat(p, p.len()) + tail);
    assert forall|t: int| 0 <= t < 4 implies ((m & sbit(t) != 0) == has_idx(p, p.len() as int, t)) by { lemma_mor_bits(p, p.len(), t); }
    if p.len() > 0 { lemma_sig_table(p[0].signal_id); }
    lemma_dec_f(p, m, 0, Seq::<%(E)s>::empty(), tail);
    assert(Seq::<%(E)s>::empty() + p.map_values(|e: %(E)s| redec2(e)) =~= p.map_values(|e: %(E)s| redec2(e)));
}'''
