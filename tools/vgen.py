"""Engine V: build a single-file Verus unit from the *current* text of /repo and run Verus.

The only executable text in a generated unit is text cut out of /repo (source files or the
-Zunpretty=expanded crate) and passed through the fixed rewrite list documented in DESIGN.md
§3.2 (X1-X5, R1-R6).  Contracts, invariants and ghost lines come from /verif/contracts/*.vt
templates (or from a Python unit builder that calls the same API) and are spliced in by anchor.
Anything unexpected raises ToolLimit -> exit 2, never an alarm.
"""
import json
import os
import re
import subprocess
import time

from rsx import Source, ToolLimit, mask_noncode, match_close, IDENT

VERIF = os.path.dirname(os.path.dirname(os.path.abspath(__file__)))
EXT = os.path.join(VERIF, 'ext')


# --------------------------------------------------------------------------------------------
# obligations / line table
class Oblig:
    def __init__(self, oid, props, kind, func, text=''):
        self.id = oid
        self.props = set(props)
        self.kind = kind          # ensures | requires-site | body | invariant | lemma | assert
        self.func = func
        self.text = text
        self.lines = None         # (lo, hi) in generated file, inclusive
        self.failed = []          # messages

    def to_json(self):
        return {'id': self.id, 'kind': self.kind, 'function': self.func,
                'status': 'failed' if self.failed else 'discharged',
                **({'verifier_messages': self.failed[:3]} if self.failed else {})}


class VFile:
    def __init__(self, name):
        self.name = name
        self.lines = []
        self.obligs = []
        self.funcs = []           # dict(name, lo, hi, body_oblig, origin)
        self.rewrites = []        # log of applied rewrites
        self.trusted = []         # assume_specification / external_body / axiom lines (scanned)
        self.canary = False       # vacuity mode: every contracted fn / lemma gets `ensures false`, which must FAIL

    def lineno(self):
        return len(self.lines) + 1

    def emit(self, text):
        lo = self.lineno()
        for ln in text.split('\n'):
            self.lines.append(ln)
        return lo, self.lineno() - 1

    def text(self):
        return '\n'.join(self.lines) + '\n'


# --------------------------------------------------------------------------------------------
# function transformation
def strip_attrs_and_docs(text):
    """X1: drop outer attributes (#[inline], #[allow], #[derive], #[doc], #[cfg_attr]) and comments."""
    m = mask_noncode(text)
    out = []
    i = 0
    n = len(text)
    while i < n:
        if m[i] == '#' and re.match(r'#\s*!?\s*\[', m[i:i + 6]):
            j = m.index('[', i)
            e = match_close(m, j)
            i = e + 1
            continue
        out.append(text[i] if (m[i] == text[i] or text[i] in '"\'' or m[i] != ' ') else text[i])
        i += 1
    res = ''.join(out)
    # drop comments (masked as spaces in m, but we appended original chars) -> redo simply
    return drop_comments(res)


def drop_comments(text):
    m = mask_noncode(text)
    out = []
    i, n = 0, len(text)
    while i < n:
        if text[i] == '/' and i + 1 < n and text[i + 1] in '/*' and m[i] == ' ':
            # comment start: skip until masked region ends
            if text[i + 1] == '/':
                j = text.find('\n', i)
                i = n if j < 0 else j
            else:
                depth, j = 1, i + 2
                while j < n and depth:
                    if text.startswith('/*', j):
                        depth += 1
                        j += 2
                    elif text.startswith('*/', j):
                        depth -= 1
                        j += 2
                    else:
                        j += 1
                i = j
            continue
        out.append(text[i])
        i += 1
    return ''.join(out)


def strip_vis(head):
    return re.sub(r'^\s*pub(\s*\([^)]*\))?\s+', '', head)


def split_sig(head, ret):
    """X2: name the return value.  head is the text from `fn` (after visibility) to just
    before the body brace."""
    m = mask_noncode(head)
    # find '->' at depth 0
    depth = 0
    pos = None
    i = 0
    while i < len(m):
        ch = m[i]
        if ch in '([{':
            i = match_close(m, i) + 1
            continue
        if m.startswith('->', i):
            pos = i
            break
        i += 1
    wh = re.search(r'\bwhere\b', m[pos:] if pos is not None else m)
    if pos is None:
        if ret:
            # unit return
            if wh:
                w = wh.start()
                return head[:w].rstrip() + ' -> (%s: ())' % ret + ' ', head[w:]
            return head.rstrip() + ' -> (%s: ())' % ret, ''
        return head.rstrip(), ''
    tail = head[pos + 2:]
    where = ''
    if wh:
        w = pos + wh.start()
        tail = head[pos + 2:w]
        where = head[w:]
    rt = tail.strip()
    if ret:
        return head[:pos].rstrip() + ' -> (%s: %s)' % (ret, rt), where
    return head[:pos].rstrip() + ' -> ' + rt, where


def norm_ws(s):
    return re.sub(r'\s+', ' ', s).strip()


def find_anchor(body, masked, anchor, nth=0):
    """Find nth occurrence of anchor (whitespace-insensitive) in body; returns (start, end) offsets."""
    toks = [re.escape(t) for t in anchor.split()]
    pat = re.compile(r'\s*'.join(toks))
    ms = list(pat.finditer(body))
    ms = [x for x in ms if masked[x.start()] != ' ' or body[x.start()] == ' ']
    if len(ms) <= nth:
        raise ToolLimit('anchor %r (#%d) not found' % (anchor, nth))
    return ms[nth].start(), ms[nth].end()


def stmt_start(masked, pos):
    """Walk back from pos to the start of the enclosing statement (after previous ';', '{' or '}' at same depth)."""
    i = pos - 1
    depth = 0
    while i >= 0:
        ch = masked[i]
        if ch in ')]}':
            if depth == 0 and ch == '}':
                return i + 1
            depth += 1
        elif ch in '([{':
            if depth == 0:
                return i + 1
            depth -= 1
        elif ch == ';' and depth == 0:
            return i + 1
        i -= 1
    return 0


def stmt_end(masked, pos):
    """Walk forward from pos to the end of the statement: the ';' at depth 0, or the closing '}' of a
    block-like statement (if/for/while/match/loop/unsafe/plain block) if that comes first and is
    followed by a non-operator token."""
    i = pos
    n = len(masked)
    while i < n:
        ch = masked[i]
        if ch in '([':
            i = match_close(masked, i) + 1
            continue
        if ch == '{':
            e = match_close(masked, i)
            # block ended; is the statement over?  peek next token
            j = e + 1
            while j < n and masked[j].isspace():
                j += 1
            if masked.startswith('else', j):
                i = j + 4
                continue
            if j < n and masked[j] == ';':
                return j + 1
            # a block followed by something that continues an expression
            if j < n and (masked[j] in '.?' or masked.startswith('as ', j)):
                i = j
                continue
            return e + 1
        if ch == ';':
            return i + 1
        if ch in ')]}':
            return i
        i += 1
    return n


LOOP_KW = re.compile(r'\b(for|while|loop)\b')


def find_loops(body, masked):
    """Return list of (kw_pos, brace_pos, close_pos) for loops in textual order."""
    res = []
    for m in LOOP_KW.finditer(masked):
        kw = m.group(1)
        # `for` in `impl X for Y` / HRTB does not occur inside fn bodies we extract
        i = m.end()
        if kw == 'for':
            # must have ` in ` before the block
            pass
        while i < len(masked):
            ch = masked[i]
            if ch in '([':
                i = match_close(masked, i) + 1
                continue
            if ch == '{':
                break
            if ch == ';':
                i = None
                break
            i += 1
        if i is None or i >= len(masked):
            continue
        res.append((m.start(), i, match_close(masked, i)))
    return res


def rewrite_loops(body, log, fname, slice_map=None):
    slice_map = slice_map or {}
    """R1-R4: rewrite iterator-adapter `for` loops that Verus does not accept into index loops.
    Applied repeatedly until no pattern is left.  Each rewrite is logged."""
    changed = True
    guard = 0
    while changed:
        guard += 1
        if guard > 200:
            raise ToolLimit('loop rewriting does not terminate in ' + fname)
        changed = False
        masked = mask_noncode(body)
        for (kpos, bpos, cpos) in find_loops(body, masked):
            if not masked.startswith('for', kpos):
                continue
            head = body[kpos:bpos]
            inner = body[bpos + 1:cpos]
            hn = norm_ws(head)
            # R1: for (i, b) in X.iter().enumerate()
            m = re.match(r'for \((\w+), (\w+)\) in (.+?)\.iter\(\)\.enumerate\(\)$', hn)
            if m:
                i_, b_, x_ = m.groups()
                inner2 = add_increment_before_continue(inner, '%s += 1;' % i_)
                new = ('let mut %s: usize = 0;\n while %s < %s.len() /*@LOOPHEAD*/ {\n let %s = &%s[%s];\n%s\n %s += 1;\n }'
                       % (i_, i_, x_, b_, x_, i_, close_stmt(inner2), i_))
                body = body[:kpos] + new + body[cpos + 1:]
                log.append('R1 %s: `%s`' % (fname, hn))
                changed = True
                break
            # R7: for i in a..b { .. continue .. }  (Verus: for-loops do not support continue)
            m = re.match(r'for (\w+) in ([\w.()\[\] ]+?)\.\.([\w.()\[\] ]+)$', hn)
            if m and m.group(1) != '_' and re.search(r'\bcontinue\b', mask_noncode(inner)):
                i_, a_, b_ = m.groups()
                inner2 = add_increment_before_continue(inner, '%s += 1;' % i_)
                new = ('let mut %s = %s;\n while %s < %s /*@LOOPHEAD*/ {\n%s\n %s += 1;\n }'
                       % (i_, a_, i_, b_, close_stmt(inner2), i_))
                body = body[:kpos] + new + body[cpos + 1:]
                log.append('R7 %s: `%s` (contains continue)' % (fname, hn))
                changed = True
                break
            # R10a: for s in A..=Bu8  (inclusive range of a u8 counter, B < 255)
            m = re.match(r'for (\w+) in (\d+)\.\.=(\d+)u8$', hn)
            if m and int(m.group(3)) < 255:
                i_, a_, b_ = m.groups()
                inner2 = add_increment_before_continue(inner, '%s += 1;' % i_)
                new = ('let mut %s: u8 = %s;\n while %s <= %s /*@LOOPHEAD*/ {\n%s\n %s += 1;\n }' % (i_, a_, i_, b_, close_stmt(inner2), i_))
                body = body[:kpos] + new + body[cpos + 1:]
                log.append('R10a %s: `%s`' % (fname, hn))
                changed = True
                break
            # R3: for _ in a..b
            m = re.match(r'for _ in (.+)$', hn)
            if m:
                k = len(re.findall(r'\bverif_i\d+\b', body))
                new_head = 'for verif_i%d in %s ' % (k, m.group(1))
                body = body[:kpos] + new_head + body[bpos:]
                log.append('R3 %s: `%s`' % (fname, hn))
                changed = True
                break
            # R2m: for v in X.iter_mut()   (element-wise update)
            m = re.match(r'for (\w+) in (.+?)\.iter_mut\(\)$', hn)
            if m:
                v_, x_ = m.groups()
                k = len(set(re.findall(r'\bverif_k\d+\b', body)))
                idx = 'verif_k%d' % k
                m2 = re.match(r'(.+)\[(\w+)\.\.\]$', x_)
                if m2:
                    # self.data[1..].iter_mut()
                    base, lo = m2.groups()
                    tgt = lambda e: '%s[%s]' % (base, e)
                    init, lim = lo, '%s.len()' % base
                else:
                    base = x_
                    tgt = lambda e: '%s[%s]' % (base, e)
                    init, lim = '0', '%s.len()' % base
                inner2, ok = rewrite_deref_assign(inner, v_, tgt(idx))
                if not ok:
                    raise ToolLimit('R2m: body of `%s` in %s uses the element in an unsupported way' % (hn, fname))
                new = ('let mut %s: usize = %s;\n while %s < %s /*@LOOPHEAD*/ {\n%s\n %s += 1;\n }'
                       % (idx, init, idx, lim, close_stmt(inner2), idx))
                body = body[:kpos] + new + body[cpos + 1:]
                log.append('R2 %s: `%s`' % (fname, hn))
                changed = True
                break
            # R4: for (a, b) in X   (by-value iteration of an ArrayVec of Copy tuples)
            m = re.match(r'for \((\w+), (\w+)\) in (\w+)$', hn)
            if m and m.group(3) in slice_map:
                a_, b_, x_ = m.groups()
                k = len(set(re.findall(r'\bverif_k\d+\b', body)))
                idx, sl = 'verif_k%d' % k, 'verif_sl%d' % k
                new = ('let %s = %s;\n let mut %s: usize = 0;\n while %s < %s.len() /*@LOOPHEAD*/ {\n let (%s, %s) = %s[%s];\n%s\n %s += 1;\n }'
                       % (sl, slice_map[x_], idx, idx, sl, a_, b_, sl, idx, close_stmt(inner), idx))
                body = body[:kpos] + new + body[cpos + 1:]
                log.append('R4 %s: `%s` iterated by index through `%s`' % (fname, hn, slice_map[x_]))
                changed = True
                break
            # R2: for v in X.iter()
            m = re.match(r'for (\w+) in (.+?)\.iter\(\)$', hn)
            if m:
                v_, x_ = m.groups()
                k = len(set(re.findall(r'\bverif_k\d+\b', body)))
                idx = 'verif_k%d' % k
                pre = ''
                if x_ in slice_map:
                    sl = 'verif_sl%d' % k
                    pre = 'let %s = %s;\n ' % (sl, slice_map[x_])
                    log.append('R2s %s: `%s.iter()` iterated through the slice `%s`' % (fname, x_, slice_map[x_]))
                    x_ = sl
                if 'continue' in mask_noncode(inner):
                    inner = add_increment_before_continue(inner, '%s += 1;' % idx)
                new = (pre + 'let mut %s: usize = 0;\n while %s < %s.len() /*@LOOPHEAD*/ {\n let %s = &%s[%s];\n%s\n %s += 1;\n }'
                       % (idx, idx, x_, v_, x_, idx, close_stmt(inner), idx))
                body = body[:kpos] + new + body[cpos + 1:]
                log.append('R2 %s: `%s`' % (fname, hn))
                changed = True
                break
    return body


def close_stmt(inner):
    """the loop body's last statement may be a trailing expression without `;`: terminate it before the increment is appended"""
    t = inner.rstrip()
    return inner if (not t or t.endswith(';')) else t + ';'


def add_increment_before_continue(inner, inc):
    m = mask_noncode(inner)
    out = []
    last = 0
    nested = [(b, c) for (_, b, c) in find_loops(inner, m)]     # a `continue` inside a nested loop belongs to that loop
    for mm in re.finditer(r'\bcontinue\b\s*;?', m):
        if any(b < mm.start() < c for (b, c) in nested):
            continue
        out.append(inner[last:mm.start()])
        out.append('{ %s continue; }' % inc)
        last = mm.end()
    out.append(inner[last:])
    return ''.join(out)


def rewrite_deref_assign(inner, v, target):
    """`*v = e;` -> `target = e;` and `v.field = e` -> `target.field = e`; fail on any other use of v."""
    s = re.sub(r'\*\s*%s\b' % re.escape(v), target, inner)
    s = re.sub(r'\b%s\.' % re.escape(v), target + '.', s)
    ok = not re.search(r'\b%s\b' % re.escape(v), mask_noncode(s).replace(target, ''))
    return s, ok


class FnSpec:
    def __init__(self):
        self.ret = None
        self.requires = []    # (id, props, text)
        self.ensures = []
        self.decreases = None
        self.inserts = []     # (mode, anchor, nth, text)
        self.loops = {}       # ordinal -> text
        self.loopbodies = {}  # ordinal -> ghost text inserted at the start of the loop body (shape independent)
        self.body_props = set()
        self.rename = None
        self.attrs = ''       # verus attributes to put before fn
        self.replace = []     # (pattern, replacement, reason) declared textual rewrites
        self.sigreplace = []
        self.no_body_check = False


def emit_fn(vf, src, path, spec, label=None, indent='    ', _canary_copy=False, keep_pub=False):
    if vf.canary and not _canary_copy:
        # vacuity mode: emit the function unchanged, then a renamed copy whose extra `ensures false` must FAIL
        emit_fn(vf, src, path, spec, label=label, indent=indent, _canary_copy=True, keep_pub=keep_pub)
    it = src.find(path)
    if it.kind != 'fn' or it.body_open is None:
        raise ToolLimit('%s is not a function with a body' % '::'.join(path))
    fname = label or '::'.join(path)
    head = src.text[it.start:it.body_open]
    body = src.text[it.body_open + 1:it.end - 1]
    head = strip_vis(drop_comments(head))
    body = strip_attrs_and_docs(body)
    for (pat, rep, reason) in spec.sigreplace:
        nh, cnt = re.subn(pat, rep, head)
        if cnt == 0:
            raise ToolLimit('declared signature rewrite %r did not apply in %s' % (pat, fname))
        head = nh
        vf.rewrites.append('X6 %s: %s' % (fname, reason))
    sig, where = split_sig(head, spec.ret)
    if spec.rename:
        sig = re.sub(r'\bfn\s+\w+', 'fn ' + spec.rename, sig, 1)
    if vf.canary and not _canary_copy:
        sig = re.sub(r'\bfn\s+(\w+)', r'fn \1__canary', sig, 1)
    for (pat, rep, reason) in spec.replace:
        nb, cnt = re.subn(pat, rep, body)
        if cnt == 0:
            if reason.startswith('R6'):   # optional rewrites (apply where the pattern occurs)
                continue
            raise ToolLimit('declared rewrite %r did not apply in %s' % (pat, fname))
        body = nb
        vf.rewrites.append('RX %s: %s (%d site(s))' % (fname, reason, cnt))
    body = rewrite_loops(body, vf.rewrites, fname, getattr(spec, 'slice_map', None))
    # anchored inserts
    for (mode, anchor, nth, text) in spec.inserts:
        masked = mask_noncode(body)
        a, b = find_anchor(body, masked, anchor, nth)
        if mode == 'after':
            pos = stmt_end(masked, stmt_start(masked, a))
        elif mode == 'before':
            pos = stmt_start(masked, a)
        elif mode == 'at':
            pos = a
        else:
            raise ToolLimit('bad insert mode ' + mode)
        body = body[:pos] + '\n' + text + '\n' + body[pos:]
    # loops
    masked = mask_noncode(body)
    loops = find_loops(body, masked)
    for ordn in spec.loops:
        if ordn >= len(loops):
            raise ToolLimit('%s: loop #%d not found (%d loops)' % (fname, ordn, len(loops)))
    for ordn in spec.loopbodies:
        if ordn >= len(loops):
            raise ToolLimit('%s: loop #%d not found (%d loops)' % (fname, ordn, len(loops)))
    for ordn in sorted(set(spec.loops) | set(spec.loopbodies), reverse=True):
        (kpos, bpos, cpos) = loops[ordn]
        if ordn in spec.loopbodies:
            body = body[:bpos + 1] + '\n' + spec.loopbodies[ordn] + '\n' + body[bpos + 1:]
        if ordn in spec.loops:
            body = body[:bpos] + '\n' + spec.loops[ordn] + '\n' + body[bpos:]
    if len(loops) and set(range(len(loops))) - set(spec.loops):
        pass  # loops without invariant: Verus will complain if needed
    body = body.replace('/*@LOOPHEAD*/', '')
    # emit
    flo = vf.lineno()
    if spec.attrs:
        at = spec.attrs
        if vf.canary and not _canary_copy:
            at = re.sub(r'rlimit\(\d+\)', 'rlimit(4)', at)   # a canary only has to *fail*; do not spend the budget proving `false`
        vf.emit(indent + at)
    elif vf.canary and not _canary_copy:
        vf.emit(indent + '#[verifier::rlimit(4)]')
    vf.emit(indent + ('pub ' if keep_pub else '') + sig.strip())
    if where.strip():
        vf.emit(indent + '    ' + where.strip())
    body_ob = Oblig(fname + '#body', spec.body_props, 'body', fname,
                    'no overflow / index / unwrap / unreachable / callee preconditions / termination; injected invariants and assertions hold')
    for kind, lst in (('requires', spec.requires), ('ensures', spec.ensures)):
        if not lst:
            continue
        vf.emit(indent + '    ' + kind)
        for (oid, props, text) in lst:
            t = text.rstrip().rstrip(',')
            lo, hi = vf.emit('\n'.join(indent + '        ' + l for l in t.split('\n')) + ',')
            if kind == 'ensures':
                ob = Oblig(oid, props, 'ensures', fname, norm_ws(t))
                ob.lines = (lo, hi)
                vf.obligs.append(ob)
    if vf.canary and not _canary_copy:
        if not spec.ensures:
            vf.emit(indent + '    ensures')
        lo, hi = vf.emit(indent + '        false,')
        ob = Oblig(fname + '#canary', set(), 'canary', fname, 'false')
        ob.lines = (lo, hi)
        vf.obligs.append(ob)
    if spec.decreases:
        vf.emit(indent + '    decreases ' + spec.decreases + ',')
    blo = vf.lineno()
    vf.emit(indent + '{')
    vf.emit(body)
    vf.emit(indent + '}')
    bhi = vf.lineno() - 1
    body_ob.lines = (blo, bhi)
    if not spec.no_body_check:
        vf.obligs.append(body_ob)
    for ob in vf.obligs:
        if ob.kind == 'canary' and ob.func == fname and getattr(ob, 'fn_lines', None) is None and ob.lines and flo <= ob.lines[0] <= bhi:
            ob.fn_lines = (flo, bhi)
    vf.funcs.append({'name': fname, 'lo': flo, 'hi': bhi, 'origin': src.label, 'path': '::'.join(path),
                     'n_requires': len(spec.requires), 'n_ensures': len(spec.ensures),
                     'n_loops': len(loops)})
    return it


def emit_spec_twin(vf, src, path, name, indent='    ', replace=()):
    """Emit the body of a real function a second time as `open spec fn <name>` (same text): lets
    relational properties (bijection, total order) be stated as lemmas over the code's own table."""
    it = src.find(path)
    head = strip_vis(drop_comments(src.text[it.start:it.body_open]))
    body = strip_attrs_and_docs(src.text[it.body_open + 1:it.end - 1])
    for (pat, rep) in replace:
        body = re.sub(pat, rep, body)
    sig, where = split_sig(head, None)
    sig = re.sub(r'\bfn\s+\w+', 'open spec fn ' + name, sig, 1)
    vf.emit(indent + 'pub ' + sig.strip())
    vf.emit(indent + '{')
    vf.emit(body)
    vf.emit(indent + '}')
    vf.rewrites.append('X8 %s: body re-emitted verbatim as spec fn %s' % ('::'.join(path), name))


def emit_lemma(vf, oid, props, text):
    lo = vf.lineno()
    vf.emit(text)
    ob = Oblig(oid, props, 'lemma', oid, '')
    ob.lines = (lo, vf.lineno() - 1)
    vf.obligs.append(ob)
    if vf.canary:
        txt, c1 = re.subn(r'\bproof fn (\w+)', r'proof fn \1__canary', text, 1)
        txt, c2 = re.subn(r'\bensures\b', 'ensures false,', txt, 1)
        if c1 and c2:
            lo = vf.lineno()
            vf.emit(txt)
            ob = Oblig(oid + '#canary', set(), 'canary', oid, 'false')
            ob.lines = (lo, vf.lineno() - 1)
            vf.obligs.append(ob)


def emit_item(vf, src, path, indent='', keep_pub=False, replace=(), keep_field_pub=False):
    """Emit a struct/enum/const/type item (X1 + visibility stripped on the item itself)."""
    it = src.find(path)
    text = src.text[it.start:it.end]
    text = strip_attrs_and_docs(text)
    text = strip_vis(text)
    # field visibilities
    if not keep_field_pub:
        text = re.sub(r'\bpub(\s*\([^)]*\))?\s+', '', text)
    if keep_pub:
        text = 'pub ' + text
    for (pat, rep) in replace:
        text = re.sub(pat, rep, text)
    vf.emit('\n'.join(indent + l for l in text.split('\n')))
    return it


def emit_impl_head(vf, src, path, indent=''):
    it = src.find(path)
    if it.kind != 'impl':
        raise ToolLimit('not an impl: ' + '::'.join(path))
    vf.emit(indent + norm_ws(drop_comments(src.text[it.start:it.body_open])) + ' {')
    return it


# --------------------------------------------------------------------------------------------
# template processing (.vt)
DIRECTIVE = re.compile(r'^\s*//@(\w+)\s*(.*)$')


def parse_props(s):
    return set(p for p in re.split(r'[,\s]+', s.strip()) if p)


def process_template(vf, tpath, sources, default_props=()):
    """sources: dict label -> callable returning Source (lazy)."""
    lines = open(tpath).read().split('\n')
    i = 0
    n = len(lines)

    def getsrc(label):
        if label not in sources:
            raise ToolLimit('unknown source ' + label)
        v = sources[label]
        if callable(v):
            v = v()
            sources[label] = v
        return v

    while i < n:
        ln = lines[i]
        m = DIRECTIVE.match(ln)
        if not m:
            vf.emit(ln)
            i += 1
            continue
        d, arg = m.group(1), m.group(2)
        indent = re.match(r'^\s*', ln).group(0)
        if d == 'include':
            inc = os.path.join(os.path.dirname(tpath), arg.strip())
            process_template(vf, inc, sources, default_props)
            i += 1
        elif d == 'item':
            a = arg.split()
            emit_item(vf, getsrc(a[0]), a[1].split('::'), indent, keep_pub=('pub' in a[2:]))
            i += 1
        elif d == 'implhead':
            a = arg.split(None, 1)
            emit_impl_head(vf, getsrc(a[0]), [s.strip().replace('+', ' ') for s in a[1].split('::')], indent)
            i += 1
        elif d == 'lemma':
            # //@lemma <id> <props> : following proof fn (until //@end) is one obligation
            a = arg.split()
            oid, props = a[0], parse_props(a[1] if len(a) > 1 else '')
            j = i + 1
            lo = vf.lineno()
            blk = []
            while not re.match(r'^\s*//@end', lines[j]):
                blk.append(lines[j])
                j += 1
            vf.emit('\n'.join(blk))
            ob = Oblig(oid, props, 'lemma', oid, '')
            ob.lines = (lo, vf.lineno() - 1)
            vf.obligs.append(ob)
            if vf.canary:
                txt = '\n'.join(blk)
                txt, c1 = re.subn(r'\bproof fn (\w+)', r'proof fn \1__canary', txt, 1)
                txt, c2 = re.subn(r'\bensures\b', 'ensures false,', txt, 1)
                if c1 and c2:
                    lo = vf.lineno()
                    vf.emit(txt)
                    ob = Oblig(oid + '#canary', set(), 'canary', oid, 'false')
                    ob.lines = (lo, vf.lineno() - 1)
                    vf.obligs.append(ob)
            i = j + 1
        elif d == 'fn':
            a = arg.split()
            srcl = a[0]
            # path may contain "Trait for Type" -> written with '+' instead of spaces
            path = [s.replace('+', ' ') for s in a[1].split('::')]
            spec = FnSpec()
            label = None
            keep_pub = False
            for kv in a[2:]:
                k, _, v = kv.partition('=')
                if k == 'ret':
                    spec.ret = v
                elif k == 'tags':
                    spec.body_props = parse_props(v)
                elif k == 'name':
                    spec.rename = v
                elif k == 'label':
                    label = v
                elif k == 'nobody':
                    spec.no_body_check = True
                elif k == 'pub':
                    keep_pub = True
                else:
                    raise ToolLimit('bad //@fn option ' + kv)
            j = i + 1
            cur = None
            buf = []

            def flush():
                if cur is None:
                    return
                text = '\n'.join(buf).strip('\n')
                kind = cur[0]
                if kind in ('requires', 'ensures'):
                    getattr(spec, kind).append((cur[1], cur[2], text))
                elif kind == 'decreases':
                    spec.decreases = text.strip().rstrip(',')
                elif kind in ('after', 'before', 'at'):
                    spec.inserts.append((kind, cur[1], cur[2], text))
                elif kind == 'loop':
                    spec.loops[cur[1]] = text
                elif kind == 'loopbody':
                    spec.loopbodies[cur[1]] = text
                elif kind == 'attr':
                    spec.attrs = text.strip()
            while True:
                if j >= n:
                    raise ToolLimit('unterminated //@fn in ' + tpath)
                mm = DIRECTIVE.match(lines[j])
                if not mm:
                    buf.append(lines[j])
                    j += 1
                    continue
                flush()
                buf = []
                dd, aa = mm.group(1), mm.group(2)
                if dd == 'end':
                    break
                if dd in ('requires', 'ensures'):
                    parts = aa.split()
                    oid = parts[0] if parts else '%s.%s%d' % (a[1], dd, len(getattr(spec, dd)))
                    props = parse_props(' '.join(parts[1:])) if len(parts) > 1 else set(default_props)
                    cur = (dd, oid, props)
                elif dd == 'decreases':
                    cur = ('decreases',)
                    buf = [aa] if aa else []
                elif dd in ('after', 'before', 'at'):
                    mq = re.match(r'`(.*)`\s*(#(\d+))?', aa)
                    if not mq:
                        raise ToolLimit('bad anchor directive: ' + lines[j])
                    cur = (dd, mq.group(1), int(mq.group(3) or 0))
                elif dd == 'loop':
                    cur = ('loop', int(aa.strip()))
                elif dd == 'loopbody':
                    cur = ('loopbody', int(aa.strip()))
                elif dd == 'attr':
                    cur = ('attr',)
                    buf = [aa]
                elif dd == 'replace':
                    # //@replace `regex` => `text` :: reason
                    mq = re.match(r'`(.*)`\s*=>\s*`(.*)`\s*::\s*(.*)$', aa)
                    if not mq:
                        raise ToolLimit('bad replace directive: ' + lines[j])
                    spec.replace.append((mq.group(1), mq.group(2), mq.group(3)))
                    cur = None
                elif dd == 'sigreplace':
                    mq = re.match(r'`(.*)`\s*=>\s*`(.*)`\s*::\s*(.*)$', aa)
                    if not mq:
                        raise ToolLimit('bad sigreplace directive: ' + lines[j])
                    spec.sigreplace.append((mq.group(1), mq.group(2), mq.group(3)))
                    cur = None
                else:
                    raise ToolLimit('unknown directive //@%s in %s' % (dd, tpath))
                j += 1
            emit_fn(vf, getsrc(srcl), path, spec, label=label, indent=indent, keep_pub=keep_pub)
            i = j + 1
        else:
            raise ToolLimit('unknown directive //@%s in %s' % (d, tpath))


# --------------------------------------------------------------------------------------------
# running Verus
def scan_trusted(vf):
    out = []
    txt = vf.lines
    for idx, ln in enumerate(txt):
        s = ln.strip()
        if re.search(r'\b(assume_specification|external_body|external_type_specification|external_trait_specification|axiom fn|admit\(|assume\()', s) and not s.startswith('//'):
            nxt = txt[idx + 1].strip() if idx + 1 < len(txt) and s.startswith('#[') else ''
            out.append(norm_ws(s + ' ' + nxt)[:200])
    return out


def run_verus(vf, workdir, extra_args=(), timeout=1800, rlimit=None):
    os.makedirs(workdir, exist_ok=True)
    path = os.path.join(workdir, vf.name + '.rs')
    with open(path, 'w') as f:
        f.write(vf.text())
    cmd = ['verus', path, '--extern', 'crc_any=%s/libcrc_any.rlib' % EXT,
           '--extern', 'tinyvec=%s/libtinyvec.rlib' % EXT, '-L', EXT,
           '--output-json', '--time', '--error-format=json', '--multiple-errors', '40',
           '--num-threads', '16'] + list(extra_args)
    if rlimit:
        cmd += ['--rlimit', str(rlimit)]
    t0 = time.time()
    p = subprocess.run(cmd, capture_output=True, text=True, timeout=timeout, cwd=workdir)
    wall = time.time() - t0
    res = {'cmd': ' '.join(cmd), 'wall_s': wall, 'rc': p.returncode, 'path': path}
    try:
        out = json.loads(p.stdout)
    except Exception:
        out = None
    diags = []
    for ln in p.stderr.split('\n'):
        ln = ln.strip()
        if ln.startswith('{'):
            try:
                diags.append(json.loads(ln))
            except Exception:
                pass
    res['json'] = out
    res['diags'] = diags
    res['stderr'] = p.stderr
    return res


TOOL_ERR_PATTERNS = (
    'not supported', 'unsupported', 'cannot find', 'mismatched types', 'expected', 'unresolved',
    'The verifier does not yet support', 'no method named', 'no field', 'cannot use', 'is not supported',
    'ill-typed', 'Resource limit', 'rlimit', 'could not', 'panicked', 'borrow', 'mutable', 'trait bound',
    'private', 'unused', 'missing', 'invalid', 'must be', 'disallowed', 'not allowed', 'cannot',
)
PROOF_FAIL = (
    'postcondition not satisfied', 'precondition not satisfied', 'assertion failed', 'invariant not satisfied',
    'possible arithmetic underflow/overflow', 'possible division by zero', 'possible bit shift underflow/overflow',
    'decreases not satisfied', 'loop invariant not', 'unreachable', 'index out of bounds', 'recommendation not met',
    'could not prove termination', 'possible', 'failed',
)


def attribute(vf, res):
    """Map Verus diagnostics to obligations.  Returns (status, tool_errors) where status in
    ok | failed | tool."""
    out = res['json']
    errs = [d for d in res['diags'] if d.get('level') == 'error']
    tool = []
    if out is None:
        return 'tool', ['verus produced no JSON: ' + res['stderr'][-2000:]]
    vr = out.get('verification-results', {})
    if vr.get('encountered-vir-error'):
        tool.append('VIR error')
    for d in errs:
        msg = d.get('message', '')
        if msg.startswith('aborting due to'):
            continue
        spans = d.get('spans', [])
        if not spans:
            tool.append(msg)
            continue
        is_proof = any(msg.startswith(p) or p in msg for p in PROOF_FAIL[:11]) or 'not satisfied' in msg or 'assertion' in msg or 'unable to prove' in msg
        if 'rlimit' in msg.lower() or 'resource limit' in msg.lower():
            tool.append(msg + ' @' + str(spans[0].get('line_start')))
            continue
        if not is_proof:
            tool.append(msg + ' @' + str(spans[0].get('line_start')))
            continue
        hit = False
        rendered = (d.get('rendered') or msg)[:1500]
        # 1. a clause span
        for sp in spans:
            ls, le = sp['line_start'], sp['line_end']
            for ob in vf.obligs:
                if ob.kind in ('ensures', 'canary') and ob.lines and ob.lines[0] <= ls and le <= ob.lines[1]:
                    ob.failed.append(rendered)
                    hit = True
        if hit:
            continue
        # 2. body / lemma spans
        for sp in spans:
            ls = sp['line_start']
            for ob in vf.obligs:
                if ob.kind in ('body', 'lemma', 'canary') and ob.lines and ob.lines[0] <= ls <= ob.lines[1]:
                    ob.failed.append(rendered)
                    hit = True
                    break
            if hit:
                break
        if not hit:
            # failure inside a function whose body is not registered (prelude lemma without //@lemma, spec fn)
            tool.append('unattributed proof failure: ' + msg + ' @' + str(spans[0].get('line_start')))
    # cross-check with function-level results: a function reported unsuccessful must have >=1 failed oblig
    try:
        for mod in out['times-ms']['smt']['smt-run-module-times']:
            for fb in mod.get('function-breakdown', []):
                if fb.get('success') is False:
                    nm = fb['function'].split('::', 1)[-1]
                    if not any(o.failed for o in vf.obligs):
                        tool.append('function %s failed without attributable diagnostic' % nm)
    except Exception:
        pass
    if tool:
        return 'tool', tool
    if any(o.failed for o in vf.obligs):
        return 'failed', []
    if not vr.get('success'):
        return 'tool', ['verus reported failure without diagnostics: ' + res['stderr'][-1500:]]
    return 'ok', []


def smt_times(res):
    t = {}
    try:
        for mod in res['json']['times-ms']['smt']['smt-run-module-times']:
            for fb in mod.get('function-breakdown', []):
                t[fb['function']] = fb['time']
    except Exception:
        pass
    return t
