"""Build and drive the native replay binary (/verif/replay) against the current /repo tree."""
import json
import os
import shutil
import subprocess

import common

KINDS = {
    'C08': ['lossless', 'biasq'], 'C11': ['quant', 'biasq'], 'C15': ['msgs'], 'C02': ['msgs', 'scan', 'iter', 'new'], 'C09': ['msgs', 'builder'], 'C01': ['msgs', 'text', 'builder', 'lossless'],
    'C16': ['bias', 'biasq', 'msgs'], 'C10': ['msminvalid', 'msmperm', 'msgs'], 'C07': ['bits'], 'C12': ['builder'], 'C17': ['text'], 'C14': ['classify', 'new'],
    'C03': ['new'], 'C13': ['new'], 'C04': ['corrupt', 'new', 'scan'], 'C05': ['scan', 'iter', 'new'], 'C06': ['chunks', 'scan', 'new'], 'C18': ['sigcmp'],
}
_bin = None


def gen_fields():
    """Table of all data fields for the native search, from the expanded source (names and value types only;
    robust against changes of the field bodies)."""
    import re
    exp = common.expanded_source()
    dfs = exp.find(['df', 'dfs'])
    try:
        import dfinv
        inv = {f.name: f for f in dfinv.fields()[0]}
    except Exception:
        inv = {}
    rows = []
    for c in dfs.children:
        if c.kind != 'mod':
            continue
        txt = exp.text[c.start:c.end]
        m = re.search(r'pub type DataType\s*=\s*([^;]+);', txt)
        if not m:
            continue
        dt = re.sub(r'\s+', '', m.group(1))
        base = dt[7:-1] if dt.startswith('Option<') else dt
        if base not in ('u8', 'u16', 'u32', 'u64', 'usize', 'i8', 'i16', 'i32', 'i64', 'f32', 'f64'):
            continue
        f = inv.get(c.name)
        sm = 'true' if (f is not None and f.kind == 'sm') or re.search(r'parse::<SM\d+>', txt) else 'false'
        n = c.name
        rows.append('FieldOps { name: "%s", is_float: %s, optional: %s, sm: %s, f32: %s,\n'
                    '  dec: |d| mk_dec::<%s>(dfs::%s::decode, d),\n'
                    '  dec_enc: |d| mk_dec_enc::<%s>(dfs::%s::decode, dfs::%s::encode, d),\n'
                    '  enc_f64: |x| mk_enc::<%s>(dfs::%s::encode, &<%s as FieldVal>::from_f64(x)),\n'
                    '  enc_absent: || <%s as FieldVal>::absent().map(|v| mk_enc::<%s>(dfs::%s::encode, &v)) },'
                    % (n, 'true' if base in ('f32', 'f64') else 'false', 'true' if dt.startswith('Option<') else 'false', sm,
                       'true' if base == 'f32' else 'false', dt, n, dt, n, n, dt, n, dt, dt, dt, n))
    return ('use crate::fields::*;\nuse rtcm_rs::verif_hook::dfs;\n#[allow(unused)]\npub fn all() -> Vec<FieldOps> { vec![\n%s\n] }\n' % '\n'.join(rows))


def build():
    global _bin
    if _bin:
        return _bin
    d = os.path.join(common.scratch(), 'replay-crate')
    if os.path.exists(d):
        shutil.rmtree(d)
    shutil.copytree(os.path.join(common.VERIF, 'replay', 'src'), os.path.join(d, 'src'))
    open(os.path.join(d, 'src', 'fields_gen.rs'), 'w').write(gen_fields())
    t = open(os.path.join(common.VERIF, 'replay', 'Cargo.toml.tmpl')).read().replace('@REPO@', common.REPO)
    open(os.path.join(d, 'Cargo.toml'), 'w').write(t)
    lock = os.path.join(common.REPO, 'Cargo.lock')
    env = common.offline_env({'RUSTFLAGS': '--cfg rtcm_rs_verif -Awarnings'})
    p = subprocess.run(['cargo', 'build', '--offline', '--target-dir', os.path.join(common.scratch(), 'replay-target')],
                       cwd=d, capture_output=True, text=True, env=env)
    if p.returncode != 0:
        raise RuntimeError('replay crate does not build against the current tree:\n' + p.stderr[-3000:])
    _bin = os.path.join(common.scratch(), 'replay-target', 'debug', 'rtcm-verif-replay')
    return _bin


def run_search(kinds, seed, budget):
    b = build()
    evals = 0
    for k in kinds:
        p = subprocess.run([b, 'search', k, str(seed), str(budget)], capture_output=True, text=True, timeout=1800)
        for ln in p.stdout.split('\n'):
            if ln.startswith('FOUND '):
                hit = json.loads(ln[6:])
                # re-run the input against the real code to confirm
                args = rerun_args(hit)
                q = subprocess.run([b] + args, capture_output=True, text=True)
                hit['rerun'] = q.stdout.strip()
                hit['rerun_cmd'] = 'replay ' + ' '.join(args)
                if q.returncode == 1:
                    return hit, evals
            if ln.startswith('NONE'):
                evals += int(ln.split('=')[1])
    return None, evals


def rerun_args(hit):
    if hit.get('field'):
        return ['rerun', hit['kind'], hit['field'], hit['input_hex']]
    return ['rerun', hit['kind'], hit['input_hex'], ','.join(str(c) for c in hit.get('cuts', []))]


def search(pid, failed, tier, seed):
    kinds = KINDS.get(pid)
    if not kinds:
        return None
    hit, evals = run_search(kinds, seed, 20000 if tier == 'quick' else 400000)
    return hit


def rerun(pid, fi):
    b = build()
    q = subprocess.run([b] + rerun_args(fi), capture_output=True, text=True)
    print(q.stdout.strip())
    return q.returncode == 0
