"""Build and drive the native replay binary (/verif/replay) against the current /repo tree."""
import json
import os
import shutil
import subprocess

import common

KINDS = {
    'C03': ['new'], 'C13': ['new'], 'C04': ['corrupt', 'new', 'scan'], 'C05': ['scan', 'iter', 'new'], 'C06': ['chunks', 'scan', 'new'],
}
_bin = None


def build():
    global _bin
    if _bin:
        return _bin
    d = os.path.join(common.scratch(), 'replay-crate')
    if os.path.exists(d):
        shutil.rmtree(d)
    shutil.copytree(os.path.join(common.VERIF, 'replay', 'src'), os.path.join(d, 'src'))
    t = open(os.path.join(common.VERIF, 'replay', 'Cargo.toml.tmpl')).read().replace('@REPO@', common.REPO)
    open(os.path.join(d, 'Cargo.toml'), 'w').write(t)
    lock = os.path.join(common.REPO, 'Cargo.lock')
    env = common.offline_env({'RUSTFLAGS': '--cfg rtcm_rs_verif -Awarnings'})
    p = subprocess.run(['cargo', 'build', '--offline', '--target-dir', os.path.join(common.scratch(), 'replay-target')],
                       cwd=d, capture_output=True, text=True, env=env)
    if p.returncode != 0:
        raise RuntimeError('replay crate does not build against the current tree:\n' + p.stderr[-3000:])
    _bin = os.path.join(common.scratch(), 'replay-target', 'debug', 'rtcm-verif-replay')
    return _bin


def run_search(kinds, seed, budget):
    b = build()
    evals = 0
    for k in kinds:
        p = subprocess.run([b, 'search', k, str(seed), str(budget)], capture_output=True, text=True, timeout=1800)
        for ln in p.stdout.split('\n'):
            if ln.startswith('FOUND '):
                hit = json.loads(ln[6:])
                # re-run the input against the real code to confirm
                q = subprocess.run([b, 'rerun', hit['kind'], hit['input_hex'], ','.join(str(c) for c in hit.get('cuts', []))],
                                   capture_output=True, text=True)
                hit['rerun'] = q.stdout.strip()
                hit['rerun_cmd'] = 'replay rerun %s %s %s' % (hit['kind'], hit['input_hex'], ','.join(str(c) for c in hit.get('cuts', [])))
                if q.returncode == 1:
                    return hit, evals
            if ln.startswith('NONE'):
                evals += int(ln.split('=')[1])
    return None, evals


def search(pid, failed, tier, seed):
    kinds = KINDS.get(pid)
    if not kinds:
        return None
    hit, evals = run_search(kinds, seed, 20000 if tier == 'quick' else 400000)
    return hit


def rerun(pid, fi):
    b = build()
    q = subprocess.run([b, 'rerun', fi['kind'], fi['input_hex'], ','.join(str(c) for c in fi.get('cuts', []))], capture_output=True, text=True)
    print(q.stdout.strip())
    return q.returncode == 0
