#!/usr/bin/env python3
"""Regenerate MANIFEST.json from tools/manifest_data.py (keeps the file valid and in sync with units.py)."""
import json, os, sys
HERE = os.path.dirname(os.path.dirname(os.path.abspath(__file__)))
sys.path.insert(0, os.path.join(HERE, 'tools'))
import manifest_data as md
import units
checks = []
for pid in sorted(md.CHECKS):
    c = md.CHECKS[pid]
    assert pid in units.PROPERTY_UNITS, pid
    checks.append({
        'property_id': pid,
        'quick_cmd': './check %s --tier quick' % pid,
        'thorough_cmd': './check %s --tier thorough' % pid,
        'evidence_file': 'evidence/%s.json' % pid,
        'replay_cmd_template': './check %s --replay {path}' % pid,
        'engine': c['engine'],
        'level_claimed': {'category': c['level'], 'text': c['text'], 'design_ref': c['design_ref']},
        'level_note': c['note'],
        'technique': c['technique'],
    })
allp = [json.loads(l)['id'] for l in open(os.path.join(HERE, 'properties.jsonl')) if l.strip()]
na = [{'property_id': p, 'reason': md.NOT_APPLICABLE.get(p, 'not yet brought under a check in this build; see DESIGN.md')} for p in allp if p not in md.CHECKS]
m = {
    'version': 1,
    'setup_cmd': './setup.sh',
    'hooks': md.HOOKS,
    'engines': md.ENGINES,
    'checks': checks,
    'notes': md.NOTES,
    'not_applicable': na,
}
json.dump(m, open(os.path.join(HERE, 'MANIFEST.json'), 'w'), indent=1)
print('MANIFEST.json: %d checks, %d not_applicable' % (len(checks), len(na)))
