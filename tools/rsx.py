"""Minimal Rust source scanner: tokens with brace matching, item tree, function cutting.

This is not a Rust parser.  It recognises exactly what the extractor needs:
comments, string/char literals, lifetimes, bracket nesting, and the item keywords
mod / fn / impl / struct / enum / trait / type / const / static / use / macro_rules.
Anything it cannot classify raises ToolLimit (exit code 2 upstream, never an alarm).
"""
import re


class ToolLimit(Exception):
    pass


IDENT = re.compile(r'[A-Za-z_][A-Za-z0-9_]*')


def mask_noncode(src):
    """Return a string of the same length where comments, string and char literals are
    replaced by spaces (newlines kept), so bracket matching can use plain scanning."""
    out = list(src)
    i, n = 0, len(src)

    def blank(a, b):
        for k in range(a, b):
            if out[k] != '\n':
                out[k] = ' '
    while i < n:
        c = src[i]
        if c == '/' and i + 1 < n and src[i + 1] == '/':
            j = src.find('\n', i)
            j = n if j < 0 else j
            blank(i, j)
            i = j
        elif c == '/' and i + 1 < n and src[i + 1] == '*':
            depth, j = 1, i + 2
            while j < n and depth:
                if src.startswith('/*', j):
                    depth += 1
                    j += 2
                elif src.startswith('*/', j):
                    depth -= 1
                    j += 2
                else:
                    j += 1
            blank(i, j)
            i = j
        elif c == '"' or (c == 'b' and i + 1 < n and src[i + 1] == '"' and not (i and (src[i - 1].isalnum() or src[i - 1] == '_'))):
            j = i + (2 if c == 'b' else 1)
            while j < n and src[j] != '"':
                j += 2 if src[j] == '\\' else 1
            blank(i + 1, j)  # keep quotes
            i = j + 1
        elif c == 'r' and re.match(r'r#*"', src[i:i + 12]) and not (i and (src[i - 1].isalnum() or src[i - 1] == '_')):
            m = re.match(r'r(#*)"', src[i:])
            close = '"' + m.group(1)
            j = src.find(close, i + len(m.group(0)))
            if j < 0:
                raise ToolLimit('unterminated raw string')
            blank(i, j + len(close))
            i = j + len(close)
        elif c == "'":
            # char literal or lifetime
            m = re.match(r"'(\\.[^']*|[^'\\])'", src[i:i + 14])
            if m:
                blank(i + 1, i + len(m.group(0)) - 1)
                i += len(m.group(0))
            else:
                i += 1
        else:
            i += 1
    return ''.join(out)


OPEN = {'(': ')', '[': ']', '{': '}'}
CLOSE = {')': '(', ']': '[', '}': '{'}


def match_close(masked, i):
    """masked[i] is an opening bracket; return index of its matching close."""
    stack = []
    n = len(masked)
    k = i
    while k < n:
        ch = masked[k]
        if ch in OPEN:
            stack.append(ch)
        elif ch in CLOSE:
            if not stack or stack[-1] != CLOSE[ch]:
                raise ToolLimit('bracket mismatch at %d' % k)
            stack.pop()
            if not stack:
                return k
        k += 1
    raise ToolLimit('unclosed bracket at %d' % i)


class Item:
    __slots__ = ('kind', 'name', 'start', 'head_end', 'body_open', 'end', 'children', 'impl_trait', 'attrs_start')

    def __repr__(self):
        return 'Item(%s %s %d..%d)' % (self.kind, self.name, self.start, self.end)


KW = ('mod', 'fn', 'impl', 'struct', 'enum', 'trait', 'type', 'const', 'static', 'use', 'macro_rules', 'extern', 'union')


def parse_items(src, masked=None, lo=0, hi=None):
    """Parse the item list in src[lo:hi] (the inside of a module or impl block)."""
    if masked is None:
        masked = mask_noncode(src)
    if hi is None:
        hi = len(src)
    items = []
    i = lo
    while i < hi:
        # skip whitespace
        while i < hi and masked[i].isspace():
            i += 1
        if i >= hi:
            break
        attrs_start = i
        # attributes
        while masked.startswith('#', i):
            j = i + 1
            if masked[j] == '!':
                j += 1
            while masked[j].isspace():
                j += 1
            if masked[j] != '[':
                raise ToolLimit('bad attribute at %d' % i)
            i = match_close(masked, j) + 1
            while i < hi and masked[i].isspace():
                i += 1
        if i >= hi:
            break
        start = i
        # qualifiers
        while True:
            m = IDENT.match(masked, i)
            if not m:
                break
            w = m.group(0)
            if w == 'pub':
                i = m.end()
                while masked[i].isspace():
                    i += 1
                if masked[i] == '(':
                    i = match_close(masked, i) + 1
            elif w in ('unsafe', 'async', 'default', 'open', 'closed', 'spec', 'proof', 'exec', 'uninterp', 'broadcast', 'axiom'):
                i = m.end()
            elif w == 'const' and re.match(r'const\s+(fn|unsafe)\b', masked[i:i + 30]):
                i = m.end()
            elif w == 'extern' and re.match(r'extern\s+"', masked[i:i + 12]):
                i = masked.index('"', masked.index('"', i) + 1) + 1
            else:
                break
            while masked[i].isspace():
                i += 1
        m = IDENT.match(masked, i)
        if not m:
            if masked[i] == ';':
                i += 1
                continue
            raise ToolLimit('unrecognised item at offset %d: %r' % (i, src[i:i + 60]))
        kw = m.group(0)
        it = Item()
        it.attrs_start = attrs_start
        it.start = start
        it.children = []
        it.impl_trait = None
        it.body_open = None
        it.kind = kw
        j = m.end()
        if kw == 'macro_rules':
            # macro_rules! name { ... }  or ( ... );
            mm = re.match(r'\s*!\s*([A-Za-z_0-9]+)\s*', masked[j:j + 200])
            it.name = mm.group(1)
            k = j + mm.end()
            e = match_close(masked, k)
            it.head_end = k
            it.end = e + 1
            if masked[k] != '{':
                while masked[it.end].isspace():
                    it.end += 1
                if masked[it.end] == ';':
                    it.end += 1
            items.append(it)
            i = it.end
            continue
        if kw not in KW:
            # macro invocation item:  name!(...);  or name!{...}
            mm = re.match(r'(::[A-Za-z_0-9]+)*\s*!\s*', masked[j:j + 200])
            if mm:
                k = j + mm.end()
                e = match_close(masked, k)
                it.kind = 'macro_call'
                it.name = kw
                it.head_end = k
                it.end = e + 1
                t = it.end
                while t < hi and masked[t].isspace():
                    t += 1
                if t < hi and masked[t] == ';':
                    it.end = t + 1
                items.append(it)
                i = it.end
                continue
            raise ToolLimit('unrecognised item keyword %r at %d' % (kw, i))
        # find end of head: first '{' or ';' at bracket depth 0 (angle brackets ignored,
        # but '(' '[' respected)
        k = j
        depth = 0
        if kw in ('use', 'extern'):
            while masked[k] != ';':
                if masked[k] in OPEN:
                    k = match_close(masked, k) + 1
                else:
                    k += 1
        while True:
            ch = masked[k]
            if ch in '([':
                k = match_close(masked, k) + 1
                continue
            if ch == '{' or ch == ';':
                break
            if ch == '=' and kw in ('const', 'static', 'type'):
                # initializer may contain braces: scan to ';' at depth 0
                t = k
                while masked[t] != ';':
                    if masked[t] in OPEN:
                        t = match_close(masked, t) + 1
                    else:
                        t += 1
                k = t
                break
            k += 1
            if k >= hi:
                raise ToolLimit('item head runs past block end at %d' % i)
        it.head_end = k
        head = masked[j:k]
        if kw == 'impl':
            h = head
            # strip generics after impl
            h = h.strip()
            if h.startswith('<'):
                d, t = 0, 0
                for t, ch in enumerate(h):
                    if ch == '<':
                        d += 1
                    elif ch == '>' and h[t - 1] != '-':
                        d -= 1
                        if d == 0:
                            break
                h = h[t + 1:]
            h = re.split(r'\bwhere\b', h)[0]
            if re.search(r'\bfor\b', h):
                tr, ty = re.split(r'\bfor\b', h, 1)
                it.impl_trait = last_path_ident(tr)
            else:
                ty = h
            it.name = last_path_ident(ty)
        elif kw in ('use', 'extern'):
            it.name = head.strip()
        else:
            mm = IDENT.search(head)
            it.name = mm.group(0) if mm else '_'
        if masked[k] == ';':
            it.end = k + 1
        else:
            it.body_open = k
            e = match_close(masked, k)
            it.end = e + 1
            if kw in ('mod', 'impl', 'trait'):
                it.children = parse_items(src, masked, k + 1, e)
        items.append(it)
        i = it.end
    return items


def last_path_ident(s):
    """`&mut MsgFrameIter<'a>` -> MsgFrameIter ; `core::iter::Iterator` -> Iterator"""
    s = s.strip()
    s = re.sub(r"^&\s*('\w+\s*)?(mut\s+)?", '', s)
    # cut generics
    d = 0
    out = []
    for idx, ch in enumerate(s):
        if ch == '<':
            d += 1
        elif ch == '>' and (idx == 0 or s[idx - 1] != '-'):
            d -= 1
        elif d == 0:
            out.append(ch)
    s = ''.join(out).strip()
    ids = IDENT.findall(s)
    if not ids:
        raise ToolLimit('cannot name impl target %r' % s)
    return ids[-1]


class Source:
    def __init__(self, text, label):
        self.text = text
        self.label = label
        self.masked = mask_noncode(text)
        self.items = parse_items(text, self.masked)

    def find(self, path):
        """path: list of segments.  A segment matches a mod/impl/struct/enum/fn by name.
        For trait impls use 'Trait for Type'."""
        cands = self.items
        it = None
        for seg in path:
            nxt = None
            if ' for ' in seg:
                tr, ty = seg.split(' for ')
                for c in cands:
                    if c.kind == 'impl' and c.name == ty.strip() and c.impl_trait == tr.strip():
                        nxt = c
                        break
            else:
                kind = None
                if ':' in seg:
                    kind, seg = seg.split(':', 1)
                # prefer inherent impls / mods, allow several impl blocks of one type
                pool = [c for c in cands if c.name == seg and c.kind != 'use' and not (c.kind == 'impl' and c.impl_trait)
                        and (kind is None or c.kind == kind)]
                if seg == path[-1].split(':')[-1] or len(pool) <= 1:
                    nxt = pool[0] if pool else None
                else:
                    # several blocks named alike (struct + impl): choose the one that has the next segment
                    idx = [q.split(':')[-1] for q in path].index(seg)
                    for c in pool:
                        if any(ch.name == path[idx + 1].split(':')[-1] for ch in c.children):
                            nxt = c
                            break
            if nxt is None:
                raise ToolLimit('item %s not found in %s (at segment %r)' % ('::'.join(path), self.label, seg))
            it = nxt
            cands = it.children
        return it

    def item_text(self, it, with_attrs=False):
        return self.text[(it.attrs_start if with_attrs else it.start):it.end]
