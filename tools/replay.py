"""Replay files and replay search (native re-execution of the real code against an executable
transcription of the failed contract).  Verus gives no counterexample, so the search is what turns a
failed obligation into a concrete failing input when one can be found."""
import json
import os
import time

import common

_found = False


def last_found():
    return _found


def make_replay(pid, failed, results, tier, seed):
    global _found
    _found = False
    os.makedirs(os.path.join(common.VERIF, 'replays'), exist_ok=True)
    path = os.path.join(common.VERIF, 'replays', '%s-%d.json' % (pid, int(time.time())))
    rec = {
        'property_id': pid, 'tier': tier, 'seed': seed, 'repo_head': common.repo_head(),
        'failed_obligations': [], 'failing_input': None,
    }
    for (ur, o) in failed:
        rec['failed_obligations'].append({
            'obligation': o.id, 'function': o.func, 'kind': o.kind, 'unit': ur.name, 'backend': ur.backend,
            'contract_text': o.text, 'verifier_output': o.failed[:5],
            'counterexample': getattr(o, 'counterexample', None),
        })
        if getattr(o, 'counterexample', None):
            _found = True
    try:
        import replay_search
        hit = None
        for (ur, o) in failed:
            if getattr(o, 'counterexample', None) and isinstance(o.counterexample, dict) and o.counterexample.get('input_hex') is not None:
                hit = o.counterexample
        if hit is None:
            hit = replay_search.search(pid, failed, tier, seed)
        if hit:
            rec['failing_input'] = hit
            _found = True
    except ImportError:
        pass
    except Exception as e:  # replay search is best effort
        rec['replay_search_error'] = repr(e)
    if not _found:
        rec['note'] = 'no-failing-input-found: the verifier gave no counterexample and the native replay search found none'
    common.write_json(path, rec)
    return path


def run_replay_file(pid, path):
    rec = json.load(open(path))
    print(json.dumps(rec, indent=1)[:6000])
    fi = rec.get('failing_input')
    if not fi:
        print('replay file carries no concrete input (no-failing-input-found)')
        return 1
    try:
        import replay_search
        ok = replay_search.rerun(pid, fi)
        print('replay against current tree: property %s' % ('HOLDS on this input' if ok else 'VIOLATED on this input'))
        return 0 if ok else 1
    except ImportError:
        return 1


def standin_search(pid, tool_errors, tier, seed):
    try:
        import replay_search
        hit = replay_search.search(pid, [], tier, seed)
    except Exception as e:
        print('replay search unavailable: %r' % e)
        return None
    if not hit:
        return None
    os.makedirs(os.path.join(common.VERIF, 'replays'), exist_ok=True)
    path = os.path.join(common.VERIF, 'replays', '%s-%d.json' % (pid, int(time.time())))
    common.write_json(path, {
        'property_id': pid, 'tier': tier, 'seed': seed, 'repo_head': common.repo_head(),
        'failed_obligations': [{'obligation': 'bounded-stand-in', 'note': 'the deductive verifier could not ingest the current text of a function under contract; '
                                'a bounded native search compared the real code with the executable transcription of the contract',
                                'verifier_output': tool_errors[:5]}],
        'failing_input': hit,
    })
    return path
