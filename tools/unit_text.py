"""Unit text (C17): Kani harnesses on the public API of Df88591String / ArrayString."""
import os
import common
import kani_engine
from vgen import Oblig

QUICK = {
    't_df88591_push_char_all_chars': (['text.descriptor.char_to_byte', 'text.descriptor.byte_to_char', 'text.descriptor.try_push_agrees'], 'complete: every value of char'),
    't_df88591_push_all_bytes': (['text.descriptor.push_nul_placeholder'], 'complete: every byte'),
    't_df88591_collect_keeps_first_n': (['text.descriptor.keeps_first_n', 'text.descriptor.maps_each_char', 'text.descriptor.full_refuses'], 'bounded: up to 9 symbolic chars into capacity 7'),
    't_arraystring_try_push_all_chars': (['text.utf8.capacity_by_bytes', 'text.utf8.refused_push_changes_nothing'], 'complete: every char x every fill level 0..=7 (capacity 7)'),
    't_arraystring_collect_longest_prefix': (['text.utf8.longest_fitting_prefix'], 'bounded: 3 symbolic chars into capacity 7'),
}
THOROUGH = {
    't_arraystring_always_valid_utf8': (['text.utf8.always_valid', 'text.utf8.round_trips_chars'], 'complete: every char x every fill level (capacity 7)'),
}


def run(tier, seed):
    from units import UnitResult
    ur = UnitResult('text', 'kani-cbmc-cadical')
    hs = dict(QUICK)
    if tier == 'thorough':
        hs.update(THOROUGH)
    text = open(os.path.join(common.VERIF, 'kani', 'c17_text.rs')).read()
    out = kani_engine.run_kani(text, list(hs), tag='text', timeout=1500 if tier == 'quick' else 6000)
    ur.cmds.append(out['cmd'])
    ur.wall_s = out['wall_s']
    for h, (clauses, scope) in hs.items():
        r = out['results'][h]
        ur.solver_s += r['time_s'] or 0
        if r['status'] == 'tool':
            ur.tool_errors.append('text harness %s: %s' % (h, r['detail'][-1200:]))
            continue
        hit = kani_engine.failed_clauses(text, r) if r['status'] == 'failed' else set()
        for cl in clauses:
            ob = Oblig(cl, {'C17', 'C01'}, 'kani-assert', 'util::{Df88591String, ArrayString} (%s)' % h, scope)
            if r['status'] == 'failed' and (cl in hit or not (hit & set(clauses))):
                ob.failed = [r['detail'][-1500:]]
            ur.obligs.append(ob)
        if scope.startswith('bounded'):
            ur.bounded.append('%s: %s' % (h, scope))
    ur.functions = [{'name': 'util::Df88591String::{push, push_char, try_push, chars, from_iter}', 'lo': 0, 'hi': 0, 'origin': 'compiled crate (Kani)', 'path': 'util', 'n_requires': 0, 'n_ensures': 7, 'n_loops': 0},
                    {'name': 'util::ArrayString::{try_push, from_iter, deref}', 'lo': 0, 'hi': 0, 'origin': 'compiled crate (Kani)', 'path': 'util', 'n_requires': 0, 'n_ensures': 5, 'n_loops': 0}]
    ur.trusted += ['Kani 0.68 + CBMC 6.11 + CaDiCaL; the capacity N = 7 instantiation stands for 7/31/255 (the code is generic in N; not mechanised)']
    return ur
