"""MSM row fragments (msm_sat_frag! / msm_sig_frag!): the column-major row encoders and decoders under contract.

encode: clone, sort by (satellite[, signal]) with a closure comparator, then one loop per column.
decode: set_len from the mask-derived id list, fill the ids in lock step, then one loop per column.

Both are emitted as `encode_checked` / `decode_checked` (real text, renamed) next to the external stubs the data segment
calls; every clause of the stubs' assumed contracts is also a proved postcondition of the checked copies."""
import re
import vgen
from vgen import FnSpec
from rsx import ToolLimit

P = {'C10', 'C01'}
PD = {'C10', 'C01', 'C02'}

RE_ENC = re.compile(r'^let mut value = value\.clone\(\); let slice = value\.as_mut_slice\(\); slice\.sort_unstable_by\((?P<clo>.+?)\); '
                    r'(?P<cols>(?:for v in value\.iter\(\) \{ \w+::encode\(asm, &v\.\w+\)\?; \} )+)Ok\(\(\)\)$')
RE_COL_E = re.compile(r'for v in value\.iter\(\) \{ (\w+)::encode\(asm, &v\.(\w+)\)\?; \}')
RE_DEC = re.compile(r'^let mut value = DataVec::<(?P<T>\w+), (?P<cap>\w+)>::new\(\); value\.set_len\((?P<src>\w+)\.len\(\)\); '
                    r'\{ let mut iter = value\.iter_mut\(\); for (?P<it>\w+) in (?P=src) \{ let v = iter\.next\(\)\.unwrap\(\); (?P<idbody>.*?) \} \} '
                    r'(?P<cols>(?:for v in value\.iter_mut\(\) \{ v\.\w+ = \w+::decode\(par\)\?; \} )+)Ok\(value\)$')
RE_COL_D = re.compile(r'for v in value\.iter_mut\(\) \{ v\.(\w+) = (\w+)::decode\(par\)\?; \}')

ID_SAT = 'v.satellite_id = *s;'
ID_SIG = 'v.satellite_id = cv.0; v.signal_id = if let Some(v) = to_sig(cv.1) { v } else { return Err(RtcmError::InvalidSignalId); }'


def looks_like_rows(fr):
    """a fragment that is meant to be a row fragment (whether or not it still has the template's shape)"""
    return fr.struct is not None and re.search(r'\bsatellite_id\b', fr.enc_body + fr.dec_body) is not None \
        and 'sat_mask' not in fr.enc_body and re.search(r'sort_unstable_by|iter_mut|set_len', fr.enc_body + fr.dec_body) is not None


def shape(fr):
    me = RE_ENC.match(fr.enc_body)
    md = RE_DEC.match(fr.dec_body)
    if not me or not md:
        raise ToolLimit('row fragment %s does not have the msm_sat_frag!/msm_sig_frag! shape (encode: %s ... decode: %s ...)'
                        % (fr.name, fr.enc_body[:160], fr.dec_body[:160]))
    ecols = RE_COL_E.findall(me.group('cols'))            # (df, field)
    dcols = [(d, f) for (f, d) in RE_COL_D.findall(md.group('cols'))]
    idb = md.group('idbody').strip()
    if idb == ID_SAT and md.group('it') == 's':
        kind = 'sat'
    elif idb == ID_SIG and md.group('it') == 'cv':
        kind = 'sig'
    else:
        raise ToolLimit('row fragment %s: id assignment `%s` is not one of the two template forms' % (fr.name, idb))
    return {'kind': kind, 'T': md.group('T'), 'cap': md.group('cap'), 'src': md.group('src'), 'it': md.group('it'),
            'ecols': ecols, 'dcols': dcols, 'closure': me.group('clo')}


def spec_text(T, kind, cols):
    n = len(cols)
    if kind == 'sat':
        key = 'crate::ord3(a.satellite_id as int, b.satellite_id as int)'
    else:
        key = ('match crate::ord3(a.satellite_id as int, b.satellite_id as int) { core::cmp::Ordering::Less => core::cmp::Ordering::Less, '
               'core::cmp::Ordering::Equal => cmp_spec(a.signal_id, b.signal_id), core::cmp::Ordering::Greater => core::cmp::Ordering::Greater }')
    out = ['// C10: the order of rows on the wire: ascending satellite%s' % ('' if kind == 'sat' else ', then ascending signal (mask position)'),
           'pub open spec fn key_cmp(a: %s, b: %s) -> core::cmp::Ordering { %s }' % (T, T, key),
           'pub open spec fn sorted_rows(p: Seq<%s>) -> bool { forall|i: int, j: int| 0 <= i < j < p.len() ==> key_cmp(#[trigger] p[i], #[trigger] p[j]) != core::cmp::Ordering::Greater }' % T]
    for k, (d, f) in enumerate(cols):
        out.append('''pub open spec fn col%(k)d(p: Seq<%(T)s>) -> Option<Seq<bool>>
    decreases p.len()
{
    if p.len() == 0 { Some(Seq::<bool>::empty()) }
    else if col%(k)d(p.drop_last()) is Some && %(d)s::enc(p.last().%(f)s) is Some { Some(col%(k)d(p.drop_last())->Some_0 + %(d)s::enc(p.last().%(f)s)->Some_0) }
    else { None }
}
pub proof fn lemma_col%(k)d_push(s: Seq<%(T)s>, x: %(T)s)
    ensures col%(k)d(s.push(x)) == (if col%(k)d(s) is Some && %(d)s::enc(x.%(f)s) is Some { Some(col%(k)d(s)->Some_0 + %(d)s::enc(x.%(f)s)->Some_0) } else { None::<Seq<bool>> }),
{ assert(s.push(x).drop_last() =~= s); }
pub proof fn lemma_col%(k)d_ext(p: Seq<%(T)s>, q: Seq<%(T)s>)
    requires p.len() == q.len(), forall|i: int| 0 <= i < p.len() ==> (#[trigger] p[i]).%(f)s == q[i].%(f)s,
    ensures col%(k)d(p) == col%(k)d(q),
    decreases p.len()
{ if p.len() > 0 { lemma_col%(k)d_ext(p.drop_last(), q.drop_last()); } }''' % {'k': k, 'T': T, 'd': d, 'f': f})
    out.append('// column-major layout: all rows\' first field, then all rows\' second field, ...')
    out.append('pub open spec fn rows_enc(p: Seq<%s>) -> Option<Seq<bool>> {\n    if %s { Some(%s) } else { None }\n}'
               % (T, ' && '.join('col%d(p) is Some' % k for k in range(n)), ' + '.join('col%d(p)->Some_0' % k for k in range(n))))
    return '\n'.join(out)


def total_order_lemma(T, kind):
    extra = ''
    if kind == 'sig':
        extra = ('        // recognised signals: the comparator is the order of signal-mask positions\n'
                 '        a.satellite_id == b.satellite_id && to_id_spec(a.signal_id) is Some && to_id_spec(b.signal_id) is Some ==>\n'
                 '            key_cmp(a, b) == crate::ord3(to_id_spec(a.signal_id)->Some_0 as int, to_id_spec(b.signal_id)->Some_0 as int),\n')
    return '''proof fn lemma_key_total(a: %(T)s, b: %(T)s, c: %(T)s)
    ensures
        key_cmp(a, a) == core::cmp::Ordering::Equal,
        (key_cmp(a, b) == core::cmp::Ordering::Less) == (key_cmp(b, a) == core::cmp::Ordering::Greater),
        (key_cmp(a, b) == core::cmp::Ordering::Equal) == (key_cmp(b, a) == core::cmp::Ordering::Equal),
        key_cmp(a, b) != core::cmp::Ordering::Greater && key_cmp(b, c) != core::cmp::Ordering::Greater ==> key_cmp(a, c) != core::cmp::Ordering::Greater,
        a.satellite_id < b.satellite_id ==> key_cmp(a, b) == core::cmp::Ordering::Less,
%(extra)s{
%(body)s}''' % {'T': T, 'extra': extra,
                'body': '    lemma_total_order(a.signal_id, b.signal_id, c.signal_id); lemma_total_order(b.signal_id, a.signal_id, c.signal_id); lemma_total_order(a.signal_id, c.signal_id, b.signal_id);\n' if kind == 'sig' else ''}


def closure_rewrite(T):
    def rep(m):
        body = m.group('body').strip()
        return ('slice.sort_unstable_by(|a: &%s, b: &%s| -> (o: core::cmp::Ordering) ensures o == key_cmp(*a, *b) { %s });' % (T, T, body))
    return rep


def emit(vf, exp, path, fr, ind):
    sh = shape(fr)
    T, kind, cols, dcols = sh['T'], sh['kind'], sh['ecols'], sh['dcols']
    pid = fr.name
    n = len(cols)
    lines = spec_text(T, kind, cols)
    vf.emit('\n'.join(ind + l for l in lines.split('\n')))
    vgen.emit_lemma(vf, 'l2.%s.comparator_is_total_order' % pid, {'C10'}, '\n'.join(ind + l for l in total_order_lemma(T, kind).split('\n')))
    # ------------------------------------------------------------------ encode_checked
    sp = FnSpec(); sp.ret = 'r'; sp.body_props = P | {'C02'}
    sp.rename = 'encode_checked'
    sp.attrs = '#[verifier::rlimit(80)]'
    sp.slice_map = {'value': 'value.as_slice()'}
    sp.replace = [
        (r'(?s)slice\s*\.\s*sort_unstable_by\s*\(\s*\|a, b\|\s*(?P<body>.*?)\)\s*;(?=\s*for v in value)', closure_rewrite(T),
         'R9 closure comparator annotated: parameter types, result name and `ensures o == key_cmp(*a, *b)`; an expression body is wrapped in a block'),
        (r'(\w+)\.signal_id\.cmp\(&(\w+)\.signal_id\)', r'sig_cmp(&\1.signal_id, &\2.signal_id)',
         'R6-opt X6 <SigId as Ord>::cmp called as the free function sig_cmp (same text, verified in this unit and in unit sigtab)'),
    ]
    sp.requires = [('l2.%s.encode.pre' % pid, set(), 'old(asm).cap() <= 0x100_0000_0000')]
    sp.ensures = [
        ('l2.%s.encode.frame' % pid, P, 'final(asm).cap() == old(asm).cap() && final(asm).poison() == old(asm).poison()'),
        ('l2.%s.encode.append_only' % pid, P | {'C07'}, 'final(asm).bits().len() >= old(asm).bits().len() && final(asm).bits().subrange(0, old(asm).bits().len() as int) == old(asm).bits()'),
        ('l2.%s.encode.error_kinds' % pid, P, 'r is Err ==> (r->Err_0 is BufferOverflow || r->Err_0 is OutOfRange)'),
        ('l2.%s.encode.rows_sorted_column_major' % pid, P,
         'r is Ok ==> exists|p: Seq<%s>| #![trigger rows_enc(p)] p.to_multiset() == value@.to_multiset() && sorted_rows(p) && rows_enc(p) is Some\n'
         '    && final(asm).bits() == old(asm).bits() + rows_enc(p)->Some_0' % T),
    ]
    enc_ensures = list(sp.ensures)
    A = sp.inserts.append
    A(('before', 'let mut value = value.clone();', 0, 'let ghost verif_v0 = value@; let ghost verif_b0 = asm.bits();'))
    A(('after', 'slice.sort_unstable_by', 0,
       'let ghost verif_p = value@;\nproof { assert(verif_p.to_multiset() == verif_v0.to_multiset()); assert(sorted_rows(verif_p)); }\n'
       'let ghost mut verif_acc: Seq<bool> = Seq::<bool>::empty();'))
    for k, (d, f) in enumerate(cols):
        pre = ''
        if k > 0:
            pre = ('proof { assert(verif_p.subrange(0, verif_p.len() as int) =~= verif_p); verif_acc = verif_acc + col%d(verif_p)->Some_0; assert(asm.bits() =~= verif_b0 + verif_acc); }\n' % (k - 1))
        pre += 'proof { assert(verif_p.subrange(0, 0) =~= Seq::<%s>::empty()); assert(verif_b0 + verif_acc + Seq::<bool>::empty() =~= verif_b0 + verif_acc); }' % T
        A(('before', 'let verif_sl%d =' % k, 0, pre))
        sp.loops[k] = '''    invariant
        verif_sl%(k)d@ == verif_p, verif_k%(k)d <= verif_p.len(), value@ == verif_p,
        asm.cap() == old(asm).cap(), asm.cap() <= 0x100_0000_0000, asm.poison() == old(asm).poison(),
        verif_b0 == old(asm).bits(), asm.bits().len() >= verif_b0.len(), asm.bits().subrange(0, verif_b0.len() as int) == verif_b0,
        col%(k)d(verif_p.subrange(0, verif_k%(k)d as int)) is Some,
        asm.bits() == verif_b0 + verif_acc + col%(k)d(verif_p.subrange(0, verif_k%(k)d as int))->Some_0,
    decreases verif_sl%(k)d.len() - verif_k%(k)d,''' % {'k': k}
        A(('after', '%s::encode(asm, &v.%s)?;' % (d, f), 0,
           '''proof {
    let verif_q = verif_p.subrange(0, verif_k%(k)d as int);
    lemma_col%(k)d_push(verif_q, *v);
    assert(verif_q.push(*v) =~= verif_p.subrange(0, verif_k%(k)d + 1));
    let verif_e = %(d)s::enc(v.%(f)s)->Some_0;
    assert((verif_b0 + verif_acc + col%(k)d(verif_q)->Some_0) + verif_e =~= verif_b0 + verif_acc + (col%(k)d(verif_q)->Some_0 + verif_e));
    assert(asm.bits().subrange(0, verif_b0.len() as int) =~= verif_b0);
}''' % {'k': k, 'd': d, 'f': f}))
    A(('before', 'Ok(())', 0,
       'proof { assert(verif_p.subrange(0, verif_p.len() as int) =~= verif_p); verif_acc = verif_acc + col%d(verif_p)->Some_0; '
       'assert(asm.bits() =~= verif_b0 + verif_acc); assert(verif_acc =~= rows_enc(verif_p)->Some_0); }' % (n - 1)))
    vgen.emit_fn(vf, exp, path + ['fn:encode'], sp, label='%s::encode' % '::'.join(path[1:]), indent=ind, keep_pub=True)

    # ------------------------------------------------------------------ decode_checked
    # the wire layout (rows_enc) is the one the encoder produces; the decoder's loops are proved against it column by column,
    # so a decoder that reads the columns in another order fails `inverts_column_major` instead of being accepted
    if sorted(dcols) != sorted(cols):
        raise ToolLimit('row fragment %s: decode columns %s are not a rearrangement of the encode columns %s' % (pid, dcols, cols))
    ci = [cols.index(c) for c in dcols]
    src, it = sh['src'], sh['it']
    elem_ty = 'u8' if kind == 'sat' else '(u8, u8)'
    sp = FnSpec(); sp.ret = 'r'; sp.body_props = PD
    sp.rename = 'decode_checked'
    sp.attrs = '#[verifier::rlimit(120)]'
    sp.replace = [
        (r'\{\s*let mut iter = value\.iter_mut\(\);\s*for (\w+) in (\w+)\s*\{\s*let v = iter\.next\(\)\.unwrap\(\);',
         r'{ let verif_src = \2.as_slice(); for (verif_z, \1) in verif_src.iter().enumerate() { let v = &mut verif_msl[verif_z];',
         'R8 lock-step `iter_mut()` / `next().unwrap()` over the id list rewritten to one shared index (the unwrap\'s panic condition becomes the index bound)'),
        (r'for v in value\.iter_mut\(\)', 'for v in verif_msl.iter_mut()',
         'R8 DataVec::iter_mut() iterated through the slice obtained once from DataVec::as_mut_slice()'),
    ]
    errk = 'r->Err_0 is BufferOverflow' if kind == 'sat' else '(r->Err_0 is BufferOverflow || r->Err_0 is InvalidSignalId)'
    def ids(X):
        if kind == 'sat':
            return '(#[trigger] %s[i]).satellite_id == crate::av_view(%s)[i]' % (X, src)
        return ('(#[trigger] %s[i]).satellite_id == crate::av_view(%s)[i].0 && to_sig_spec(crate::av_view(%s)[i].1) == Some(%s[i].signal_id)' % (X, src, src, X))
    sp.ensures = [
        ('l2.%s.decode.nz_monotone' % pid, PD, 'old(par).nz() ==> final(par).nz()'),
        ('l2.%s.decode.error_kinds' % pid, PD, 'r is Err ==> %s' % errk),
        ('l2.%s.decode.rows_follow_mask_order' % pid, PD,
         'r is Ok ==> r->Ok_0@.len() == crate::av_view(%s).len() && forall|i: int| 0 <= i < r->Ok_0@.len() ==> %s' % (src, ids('r->Ok_0@'))),
        ('l2.%s.decode.inverts_column_major' % pid, {'C01', 'C10'},
         '''r is Ok && !final(par).nz() ==> rows_enc(r->Ok_0@) is Some && ({
        let b = rows_enc(r->Ok_0@)->Some_0;
        &&& b.len() <= old(par).rest().len()
        &&& b == old(par).rest().subrange(0, b.len() as int)
        &&& final(par).rest() == old(par).rest().subrange(b.len() as int, old(par).rest().len() as int)
    })'''),
    ]
    if kind == 'sig':
        sp.ensures.append(('l2.%s.decode.unknown_signal_rejected' % pid, {'C10', 'C02'},
                           '(exists|i: int| 0 <= i < crate::av_view(%s).len() && to_sig_spec((#[trigger] crate::av_view(%s)[i]).1) is None) ==> r is Err && r->Err_0 is InvalidSignalId' % (src, src)))
    A = sp.inserts.append
    A(('before', 'value.set_len(', 0, 'proof { crate::axiom_av_cap_array::<%s, 64>(); crate::axiom_av_cap_array::<%s, %s>(); }' % (elem_ty, T, sh['cap'])))
    A(('after', 'value.set_len(', 0,
       'let ghost verif_s0 = par.rest(); let ghost mut verif_off: int = 0; let ghost mut verif_acc: Seq<bool> = Seq::<bool>::empty();\n'
       'let verif_msl = value.as_mut_slice();'))
    # loop 0: ids
    rej = ''
    if kind == 'sig':
        rej = '\n        forall|i: int| 0 <= i < verif_z ==> to_sig_spec((#[trigger] crate::av_view(%s)[i]).1) is Some,' % src
    sp.loops[0] = '''    invariant
        verif_src@ == crate::av_view(%(src)s), verif_msl@.len() == verif_src@.len(), verif_z <= verif_src@.len(),
        par.rest() == old(par).rest(), par.nz() == old(par).nz(),%(rej)s
        forall|i: int| 0 <= i < verif_z ==> %(ids)s,
    decreases verif_src.len() - verif_z,''' % {'src': src, 'ids': ids('verif_msl@'), 'rej': rej}
    allf = [f for (_, f) in cols]
    for k, (d, f) in enumerate(dcols):
        ck = ci[k]
        snap = 'verif_snap%d' % k
        pre = 'let ghost %s = verif_msl@;\n' % snap
        pre += ('proof { assert(verif_msl@.subrange(0, 0) =~= Seq::<%s>::empty()); assert(verif_acc + Seq::<bool>::empty() =~= verif_acc); '
                'assert(verif_s0.subrange(0, 0) =~= Seq::<bool>::empty()); assert(verif_s0.subrange(0, verif_s0.len() as int) =~= verif_s0); }' % T)
        idx = 'verif_k%d' % k
        A(('before', 'let mut %s: usize' % idx, 0, pre))
        others = ' && '.join('%sverif_msl@[i]%s.%s == %s[i].%s' % ('(#[trigger] ' if gi == 0 else '', ')' if gi == 0 else '', g, snap, g) for gi, g in enumerate(g for g in allf if g != f))
        prev = ''.join('\n            && col%d(%s) is Some' % (ci[j], snap) for j in range(k))
        prevsum = ' + '.join('col%d(%s)->Some_0' % (ci[j], snap) for j in range(k)) or 'Seq::<bool>::empty()'
        sp.loops[k + 1] = '''    invariant
        verif_msl@.len() == %(snap)s.len(), %(idx)s <= verif_msl@.len(), verif_s0 == old(par).rest(), old(par).nz() ==> par.nz(),
        verif_msl@.len() == crate::av_view(%(src)s).len(),%(known)s
        forall|i: int| 0 <= i < verif_msl@.len() ==> %(ids)s,%(frame)s
        !par.nz() ==> 0 <= verif_off <= verif_s0.len()%(prev)s
            && verif_acc == %(prevsum)s
            && col%(k)d(verif_msl@.subrange(0, %(idx)s as int)) is Some
            && verif_s0.subrange(0, verif_off) == verif_acc + col%(k)d(verif_msl@.subrange(0, %(idx)s as int))->Some_0
            && par.rest() == verif_s0.subrange(verif_off, verif_s0.len() as int),
    decreases verif_msl.len() - %(idx)s,''' % {'snap': snap, 'idx': idx, 'frame': ('\n        forall|i: int| 0 <= i < verif_msl@.len() ==> %s,' % others) if others else '', 'prev': prev, 'prevsum': prevsum, 'k': ck, 'src': src, 'ids': ids('verif_msl@'),
                               'known': ('\n        forall|i: int| 0 <= i < crate::av_view(%s).len() ==> to_sig_spec((#[trigger] crate::av_view(%s)[i]).1) is Some,' % (src, src)) if kind == 'sig' else ''}
        sp.loopbodies[k + 1] = 'let ghost verif_pre = verif_msl@;'
        A(('after', 'verif_msl[%s].%s = %s::decode(par)?;' % (idx, f, d), 0,
           '''proof { if !par.nz() {
    let verif_x = verif_msl@[%(idx)s as int];
    let verif_e = %(d)s::enc(verif_x.%(f)s)->Some_0;
    let verif_q = verif_msl@.subrange(0, %(idx)s as int);
    assert(verif_q =~= verif_pre.subrange(0, %(idx)s as int));
    crate::lemma_consume(verif_s0, verif_off, verif_e.len() as int);
    lemma_col%(k)d_push(verif_q, verif_x);
    assert(verif_q.push(verif_x) =~= verif_msl@.subrange(0, %(idx)s + 1));
    assert((verif_acc + col%(k)d(verif_q)->Some_0) + verif_e =~= verif_acc + (col%(k)d(verif_q)->Some_0 + verif_e));
    verif_off = verif_off + verif_e.len();
} }''' % {'idx': idx, 'd': d, 'f': f, 'k': ck}))
        # after the loop: fold the column into the accumulator and carry the earlier columns over the frame
        post = 'proof { assert(verif_msl@.subrange(0, verif_msl@.len() as int) =~= verif_msl@); if !par.nz() { '
        for j in range(k):
            post += 'lemma_col%d_ext(%s, verif_msl@); ' % (ci[j], snap)
        post += 'verif_acc = verif_acc + col%d(verif_msl@)->Some_0; } }' % ck
        if k + 1 < n:
            A(('before', 'let mut verif_k%d: usize' % (k + 1), 0, post))
        else:
            A(('before', 'Ok(value)', 0, post))
    vgen.emit_fn(vf, exp, path + ['fn:decode'], sp, label='%s::decode' % '::'.join(path[1:]), indent=ind, keep_pub=True)
    # clauses of decode_checked that the external stub `decode` (called by the data segment) may carry: proved above
    sh['stub_encode_ensures'] = [t for (oid, _, t) in enc_ensures if oid.split('.')[-1] == 'rows_sorted_column_major']
    sh['stub_decode_ensures'] = [t for (oid, _, t) in sp.ensures if oid.split('.')[-1] in ('error_kinds', 'rows_follow_mask_order', 'unknown_signal_rejected')]
    return sh
