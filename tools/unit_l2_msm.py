"""MSM data segment encoder (msm_data_seg_frag! encode), C10 + C09: contracts and invariants."""
import re
import vgen
from vgen import FnSpec

P = {'C10', 'C09'}


def is_msm_data(fr):
    return 'sat_sig_mask' in fr.enc_body and 'cell_cont_len' in fr.enc_body


SPEC = '''
pub open spec fn sat_in(s: Seq<%(SAT)s>, k: int, p: int) -> bool { exists|j: int| 0 <= j < k && #[trigger] s[j].satellite_id == p }
pub open spec fn csat_in(c: Seq<%(SIG)s>, k: int, p: int) -> bool { exists|j: int| 0 <= j < k && #[trigger] c[j].satellite_id == p }
pub open spec fn csig_in(c: Seq<%(SIG)s>, k: int, g: int) -> bool { exists|j: int| 0 <= j < k && #[trigger] to_id_spec(c[j].signal_id) == Some(g as u8) }
// row-major cell index of cell j: rank of its satellite among the satellites * number of signals + rank of its signal
pub open spec fn cell_idx(c: Seq<%(SIG)s>, j: int, sm: u64, gm: u32) -> int {
    (crate::msg::cnt64(sm, (c[j].satellite_id - 1) as nat) * crate::msg::cnt32(gm, 32) + crate::msg::cnt32(gm, (to_id_spec(c[j].signal_id)->Some_0 - 1) as nat)) as int
}
pub open spec fn cell_in(c: Seq<%(SIG)s>, k: int, sm: u64, gm: u32, q: int) -> bool { exists|j: int| 0 <= j < k && #[trigger] cell_idx(c, j, sm, gm) == q }
// the three masks as the standard defines them (C10), for satellites s and cells c
pub open spec fn masks_ok(s: Seq<%(SAT)s>, c: Seq<%(SIG)s>, sm: u64, gm: u32, cm: u64, n: int) -> bool {
    &&& forall|p: int| 1 <= p <= 64 ==> (crate::msg::bit64(sm, p) <==> sat_in(s, s.len() as int, p))
    &&& forall|g: int| 1 <= g <= 32 ==> (crate::msg::bit32(gm, g) <==> csig_in(c, c.len() as int, g))
    &&& n == crate::msg::cnt64(sm, 64) * crate::msg::cnt32(gm, 32)
    &&& forall|q: int| 0 <= q < n ==> (crate::msg::cellbit(cm, n, q) <==> cell_in(c, c.len() as int, sm, gm, q))
}
// two cells with the same satellite and the same signal position
pub open spec fn dup_cell(c: Seq<%(SIG)s>) -> bool {
    exists|i: int, j: int| 0 <= i < j < c.len() && (#[trigger] c[i]).satellite_id == (#[trigger] c[j]).satellite_id && to_id_spec(c[i].signal_id) == to_id_spec(c[j].signal_id)
}
// the row-major index determines the cell: equal indices of two cells whose satellite and signal bits are set mean the same satellite and signal
pub proof fn lemma_cell_idx_inj(c: Seq<%(SIG)s>, i: int, j: int, sm: u64, gm: u32)
    requires
        0 <= i < c.len(), 0 <= j < c.len(),
        1 <= c[i].satellite_id <= 64, 1 <= c[j].satellite_id <= 64, to_id_spec(c[i].signal_id) is Some, to_id_spec(c[j].signal_id) is Some,
        crate::msg::bit64(sm, c[i].satellite_id as int), crate::msg::bit64(sm, c[j].satellite_id as int),
        crate::msg::bit32(gm, to_id_spec(c[i].signal_id)->Some_0 as int), crate::msg::bit32(gm, to_id_spec(c[j].signal_id)->Some_0 as int),
        cell_idx(c, i, sm, gm) == cell_idx(c, j, sm, gm),
    ensures c[i].satellite_id == c[j].satellite_id, to_id_spec(c[i].signal_id) == to_id_spec(c[j].signal_id),
{
    lemma_id_range(c[i].signal_id); lemma_id_range(c[j].signal_id);
    let p1 = c[i].satellite_id as nat; let p2 = c[j].satellite_id as nat;
    let g1 = to_id_spec(c[i].signal_id)->Some_0 as nat; let g2 = to_id_spec(c[j].signal_id)->Some_0 as nat;
    let ng = crate::msg::cnt32(gm, 32) as int;
    let a1 = crate::msg::cnt64(sm, (p1 - 1) as nat) as int; let a2 = crate::msg::cnt64(sm, (p2 - 1) as nat) as int;
    let b1 = crate::msg::cnt32(gm, (g1 - 1) as nat) as int; let b2 = crate::msg::cnt32(gm, (g2 - 1) as nat) as int;
    crate::msg::lemma_rank32_lt(gm, g1); crate::msg::lemma_rank32_lt(gm, g2);
    assert(a1 == a2 && b1 == b2) by(nonlinear_arith) requires a1 * ng + b1 == a2 * ng + b2, 0 <= b1 < ng, 0 <= b2 < ng, a1 >= 0, a2 >= 0;
    if p1 < p2 { crate::msg::lemma_rank64_inj(sm, p1, p2); }
    if p2 < p1 { crate::msg::lemma_rank64_inj(sm, p2, p1); }
    if g1 < g2 { crate::msg::lemma_rank32_inj(gm, g1, g2); }
    if g2 < g1 { crate::msg::lemma_rank32_inj(gm, g2, g1); }
}
pub open spec fn msm_valid(s: Seq<%(SAT)s>, c: Seq<%(SIG)s>) -> bool {
    &&& forall|j: int| 0 <= j < s.len() ==> 1 <= #[trigger] s[j].satellite_id <= 64
    &&& forall|i: int, j: int| 0 <= i < j < s.len() ==> s[i].satellite_id != s[j].satellite_id
    &&& forall|j: int| 0 <= j < c.len() ==> 1 <= #[trigger] c[j].satellite_id <= 64 && to_id_spec(c[j].signal_id) is Some
    &&& forall|p: int| 1 <= p <= 64 ==> (sat_in(s, s.len() as int, p) <==> csat_in(c, c.len() as int, p))
}
'''


def emit(vf, exp, path, fr, ind):
    """msm_data_seg_frag! encode with the proof developed on one instance (contracts/msm_dataseg_proof.json holds the ghost
    text keyed by anchor; it mentions no constellation- or message-specific name)."""
    import json, os, common
    pr = json.load(open(os.path.join(common.VERIF, 'contracts', 'msm_dataseg_proof.json')))
    ch = pr['chunks']
    pid = fr.name
    st = exp.text[fr.struct.start:fr.struct.end]
    satmod = re.search(r'satellite_data:\s*(\w+)::DataType', st).group(1)
    sigmod = re.search(r'signal_data:\s*(\w+)::DataType', st).group(1)
    SIG = None
    for c in fr.parent.children:
        if c.kind == 'mod' and c.name == sigmod:
            for d in c.children:
                if d.kind == 'struct':
                    SIG = sigmod + '::' + d.name
    if SIG is None:
        raise vgen.ToolLimit('signal fragment %s not found next to %s' % (sigmod, pid))
    SAT = fr.sat_elem
    vf.emit('\n'.join(ind + l for l in (SPEC % {'SAT': SAT, 'SIG': SIG}).split('\n')))
    vf.emit(ind + 'pub uninterp spec fn enc_rows(v: DataType) -> Option<Seq<bool>>;   // row data: fragments %s / %s are outside this unit' % (satmod, sigmod))
    vf.emit(ind + 'pub open spec fn enc(v: DataType) -> Option<Seq<bool>> { if v.satellite_data@.len() == 0 && v.signal_data@.len() == 0 { Some(crate::bits_of_int(0, 64) + crate::bits_of_int(0, 32)) } else { enc_rows(v) } }')
    sp = FnSpec(); sp.ret = 'r'; sp.body_props = P
    sp.attrs = '#[verifier::rlimit(100)]'
    sp.replace = [(r'\b(asm|par)\.(put|parse)::<(\w+)>\(', r'\1.\2_\3(', 'R6 generic L0 call monomorphised'),
                  (r'(\bvalue\.\w+)\.is_empty\(\)', r'(\1.len() == 0)', 'R6-opt RX <[T]>::is_empty() reached through Deref of DataVec is `len() == 0`')]
    sp.slice_map = {'value.satellite_data': 'value.satellite_data.as_slice()', 'value.signal_data': 'value.signal_data.as_slice()', 'cell_vec': 'cell_vec.as_slice()'}
    sp.requires = [('l2.%s.encode.pre' % pid, set(), 'old(asm).cap() <= 0x100_0000_0000')]
    names = ['frame', 'accepts_only_valid', 'masks_follow_standard', 'err.invalid_satellite', 'err.invalid_signal', 'err.duplicate_satellite',
             'err.satellite_mismatch', 'err.too_many_cells', 'err.only_documented_errors']
    # split the hand-written ensures block into clauses at top-level commas
    clauses = split_clauses(pr['ensures'])
    if len(clauses) != len(names):
        raise vgen.ToolLimit('msm proof file: %d ensures clauses, expected %d' % (len(clauses), len(names)))
    sp.ensures = [('l2.%s.encode.%s' % (pid, n), P if n in ('frame', 'err.too_many_cells', 'err.only_documented_errors') else {'C10'}, c) for n, c in zip(names, clauses)]
    # the complete wire layout of the data segment (C10, encode side): the three masks, then the satellite rows and the cell rows, each a
    # sorted permutation of the caller's list, column-major (rows_enc of the row fragments, proved on their encode_checked)
    sp.ensures.append(('l2.%s.encode.rows_sorted_after_masks' % pid, {'C10', 'C01'}, LAYOUT % {'SATM': satmod, 'SIGM': sigmod, 'SAT': SAT, 'SIG': SIG}))
    sp.ensures.append(('l2.%s.encode.err.duplicate_cell' % pid, {'C10'},
                       'r is Err && r->Err_0 is DuplicateSatelliteSignal ==> dup_cell(value.signal_data@)'))
    sp.ensures.append(('l2.%s.encode.accepts_no_duplicate_cell' % pid, {'C10'}, 'r is Ok ==> !dup_cell(value.signal_data@)'))
    sp.ensures.append(('l2.%s.encode.poison' % pid, set(), 'old(asm).poison() ==> final(asm).poison()'))
    sp.ensures.append(('l2.%s.encode.appends_enc' % pid, {'C01'}, ENC_POST_MSM))
    A = sp.inserts.append
    A(('before', 'return Ok(());', 0, ch['empty'] + 'proof { crate::lemma_seq_assoc(old(asm).bits(), crate::bits_of_int(0, 64), crate::bits_of_int(0, 32)); }'))
    A(('before', 'let mut sat_mask: u64 = 0;', 0, ch['setup']))
    sp.loops[0] = ch['inv0']
    A(('after', 'let sat: u64 = 1 << (64 - s.satellite_id);', 0, ch['sat0']))
    sp.loops[1] = ch['inv1']
    A(('after', 'let sat: u64 = 1 << (64 - sat_id);', 0, ch['sat1']))
    A(('after', 'let sig = 1 << (32 - sig_id);', 0, ch['sig1']))
    A(('before', 'return Err(RtcmError::SatelliteMismatch);', 0, ch['mismatch']))
    sp.loops[2] = ch['inv2']
    sp.loopbodies[2] = ch['body2']
    sp.loops[3] = ch['inv3']
    sp.loopbodies[3] = ch['body3']
    A(('after', 'let sig_mask_len = mask_len_u32(sig_mask);', 0, ch['siglen']))
    A(('after', 'let cell_cont_len =', 0, ch['ccl']))
    A(('before', 'return Err(RtcmError::InvalidSatelliteSignalCount);', 0, ch['toomany']))
    A(('after', 'let mut cell_mask: u64 = 0;', 0, ch['cm0']))
    sp.loops[4] = ch['inv4'].replace('    decreases verif_sl2.len() - verif_k2,',
                                     '        vc == value.signal_data@, vs == value.satellite_data@,\n'
                                     '        forall|i: int, j: int| 0 <= i < j < verif_k2 ==> #[trigger] cell_idx(vc, i, sat_mask, sig_mask) != #[trigger] cell_idx(vc, j, sat_mask, sig_mask),\n'
                                     '    decreases verif_sl2.len() - verif_k2,')
    if 'forall|i: int, j: int| 0 <= i < j < verif_k2' not in sp.loops[4]:
        raise vgen.ToolLimit('msm proof file: invariant 4 has no decreases line to extend')
    if 'return Err(RtcmError::DuplicateSatelliteSignal);' in fr.enc_body:    # when the check is gone Verus decides accepts_no_duplicate_cell
      A(('before', 'return Err(RtcmError::DuplicateSatelliteSignal);', 0,
       '''proof {
    let n = cell_cont_len as u64; let a = cell_indx as u64;
    crate::msg::lemma_setcell(cell_mask, n, a, a);
    assert(cell & cell_mask == cell_mask & cell) by(bit_vector);
    assert(cell_in(vc, verif_k2 as int, sat_mask, sig_mask, cell_indx as int));
    let j0 = choose|j: int| 0 <= j < verif_k2 && #[trigger] cell_idx(vc, j, sat_mask, sig_mask) == cell_indx as int;
    assert(csat_in(vc, vc.len() as int, vc[j0].satellite_id as int)); assert(csat_in(vc, vc.len() as int, vc[verif_k2 as int].satellite_id as int));
    lemma_id_range(vc[j0].signal_id); lemma_id_range(vc[verif_k2 as int].signal_id);
    assert(to_id_spec(vc[j0].signal_id) == Some((to_id_spec(vc[j0].signal_id)->Some_0 as int) as u8));
    assert(to_id_spec(vc[verif_k2 as int].signal_id) == Some((to_id_spec(vc[verif_k2 as int].signal_id)->Some_0 as int) as u8));
    assert(csig_in(vc, vc.len() as int, to_id_spec(vc[j0].signal_id)->Some_0 as int)); assert(csig_in(vc, vc.len() as int, to_id_spec(vc[verif_k2 as int].signal_id)->Some_0 as int));
    lemma_cell_idx_inj(vc, j0, verif_k2 as int, sat_mask, sig_mask);
    assert(dup_cell(vc));
}'''))
    A(('after', 'cell_mask |= cell;', 0,
       '''proof {
    assert forall|i: int, j: int| 0 <= i < j < verif_k2 + 1 implies #[trigger] cell_idx(vc, i, sat_mask, sig_mask) != #[trigger] cell_idx(vc, j, sat_mask, sig_mask) by {
        if j == verif_k2 as int && cell_idx(vc, i, sat_mask, sig_mask) == cell_idx(vc, j, sat_mask, sig_mask) { assert(cell_in(vc, verif_k2 as int, sat_mask, sig_mask, cell_indx as int)); }
    }
}'''))
    A(('after', 'let (sat_id, sig_id) = verif_sl2[verif_k2];', 0, ch['cell_a']))
    A(('after', 'let cell = 1 << (cell_cont_len - 1 - cell_indx);', 0, ch['cell_b']))
    A(('before', 'asm.put_U64(sat_mask, 64)?;', 0, ch['preput']))
    A(('before', 'asm.put_U64(sat_mask, 64)?;', 0,
       '''proof {
    if dup_cell(vc) {
        let (i, j) = choose|i: int, j: int| 0 <= i < j < vc.len() && (#[trigger] vc[i]).satellite_id == (#[trigger] vc[j]).satellite_id && to_id_spec(vc[i].signal_id) == to_id_spec(vc[j].signal_id);
        assert(cell_idx(vc, i, sat_mask, sig_mask) == cell_idx(vc, j, sat_mask, sig_mask));
    }
    assert(!dup_cell(vc));
}'''))
    A(('after', 'asm.put_U64(cell_mask, cell_cont_len)?;', 0, ch['postput']))
    A(('before', 'Ok(())', 1, ch['final']))
    # layout clause: witnesses from the row fragments' contracts
    A(('before', 'return Ok(());', 0,
       'proof { let e0 = Seq::<%(SAT)s>::empty(); let e1 = Seq::<%(SIG)s>::empty(); crate::lemma_bits_len(0, 0); '
       'assert(%(SATM)s::rows_enc(e0) == Some(Seq::<bool>::empty())); assert(%(SIGM)s::rows_enc(e1) == Some(Seq::<bool>::empty())); '
       'assert(value.satellite_data@ =~= e0 && value.signal_data@ =~= e1); '
       'assert(asm.bits() =~= old(asm).bits() + crate::bits_of_int(0, 64) + crate::bits_of_int(0, 32) + crate::bits_of_int(0, 0) + %(SATM)s::rows_enc(e0)->Some_0 + %(SIGM)s::rows_enc(e1)->Some_0); '
       'assert(layout_ok(value.satellite_data@, value.signal_data@, old(asm).bits(), asm.bits(), 0u64, 0u32, 0u64, 0, e0, e1)); }' % {'SATM': satmod, 'SIGM': sigmod, 'SAT': SAT, 'SIG': SIG}))
    A(('after', 'asm.put_U64(cell_mask, cell_cont_len)?;', 0,
       'proof { assert(asm.bits() =~= vb0 + crate::bits_of_int(sat_mask as int, 64) + crate::bits_of_int(sig_mask as int, 32) + crate::bits_of_int(cell_mask as int, cell_cont_len as nat)); }'))
    A(('after', '%s::encode(asm, &value.satellite_data)?;' % satmod, 0,
       'let ghost vb4 = asm.bits();\nlet ghost verif_ps = choose|p: Seq<%(SAT)s>| #![trigger %(SATM)s::rows_enc(p)] p.to_multiset() == vs.to_multiset() && %(SATM)s::sorted_rows(p) && %(SATM)s::rows_enc(p) is Some && vb4 == vb3 + %(SATM)s::rows_enc(p)->Some_0;'
       % {'SATM': satmod, 'SAT': SAT}))
    A(('after', '%s::encode(asm, &value.signal_data)?;' % sigmod, 0,
       'let ghost vb5 = asm.bits();\nlet ghost verif_pc = choose|p: Seq<%(SIG)s>| #![trigger %(SIGM)s::rows_enc(p)] p.to_multiset() == vc.to_multiset() && %(SIGM)s::sorted_rows(p) && %(SIGM)s::rows_enc(p) is Some && vb5 == vb4 + %(SIGM)s::rows_enc(p)->Some_0;\n'
       'proof { assert(layout_ok(vs, vc, vb0, vb5, sat_mask, sig_mask, cell_mask, cell_cont_len as int, verif_ps, verif_pc)); }'
       % {'SIGM': sigmod, 'SIG': SIG}))
    vgen.emit_fn(vf, exp, path + ['fn:encode'], sp, label='%s::encode' % '::'.join(path[1:]), indent=ind, keep_pub=True)
    # decode: the parents call the external `decode` (bit-log claim void for MSM); the real text is verified as `decode_checked`
    vf.emit((ind + """#[verifier::external_body]
pub fn decode(par: &mut Parser) -> (r: Result<DataType, RtcmError>)
    ensures final(par).nz(),
{ unimplemented!() }""").replace('\n', '\n' + ind))
    vf.emit('\n'.join(ind + l for l in ((DEC_SPEC + DEC_WIRE) % {'SAT': SAT, 'SIG': SIG, 'SATM': satmod, 'SIGM': sigmod}).split('\n')))
    sp = FnSpec(); sp.ret = 'r'; sp.body_props = {'C02', 'C10'}
    sp.rename = 'decode_checked'
    sp.attrs = '#[verifier::rlimit(80)]'
    sp.replace = [(r'\b(asm|par)\.(put|parse)::<(\w+)>\(', r'\1.\2_\3(', 'R6 generic L0 call monomorphised')]
    sp.ensures = [
        ('l2.%s.decode.rows_are_the_mask_cells' % pid, {'C10', 'C01'},
         'r is Ok ==> decoded_wire(old(par).rest(), r->Ok_0.satellite_data@, r->Ok_0.signal_data@)'),
        ('l2.%s.decode.empty_masks_give_empty_lists' % pid, {'C10', 'C01'},
         '(old(par).rest().len() >= 96 && wire_sm(old(par).rest()) == 0 && wire_gm(old(par).rest()) == 0)\n'
         '    ==> r is Ok && r->Ok_0.satellite_data@.len() == 0 && r->Ok_0.signal_data@.len() == 0 && final(par).rest() == old(par).rest().subrange(96, old(par).rest().len() as int)'),
        ('l2.%s.decode.error_kinds' % pid, {'C10', 'C02'},
         'r is Err ==> (r->Err_0 is BufferOverflow || r->Err_0 is InvalidSatelliteSignalCount || r->Err_0 is InvalidSignalId)'),
        ('l2.%s.decode.cell_count_out_of_range_rejected' % pid, {'C10', 'C02'},
         '(old(par).rest().len() >= 96 && !(wire_sm(old(par).rest()) == 0 && wire_gm(old(par).rest()) == 0) && (wire_n(old(par).rest()) > 64 || wire_n(old(par).rest()) == 0))\n'
         '    ==> r is Err && r->Err_0 is InvalidSatelliteSignalCount'),
    ]
    B = sp.inserts.append
    B(('before', 'let sat_mask = par.parse_U64(64)?;', 0, 'let ghost verif_s0 = par.rest();'))
    B(('after', 'let sig_mask = par.parse_U32(32)?;', 0,
       '''proof {
    crate::lemma_consume(verif_s0, 0, 64); crate::lemma_consume(verif_s0, 64, 32);
    assert(verif_s0.subrange(0, verif_s0.len() as int) =~= verif_s0);
    crate::msg::lemma_ids64_len(sat_mask, 64); crate::msg::lemma_ids32_len(sig_mask, 32);
    crate::msg::lemma_cnt64_popcount(sat_mask, 64); crate::msg::lemma_cnt32_popcount(sig_mask, 32);
    crate::lemma_pow2_64_32();
    crate::lemma_uval_bits(sat_mask as int, 64); crate::lemma_uval_bits(sig_mask as int, 32);
    assert(wire_sm(verif_s0) == sat_mask && wire_gm(verif_s0) == sig_mask);
}'''))
    if 'return Ok(' in fr.dec_body:    # the early return for two zero masks (when it is gone Verus decides `empty_masks_give_empty_lists`)
        B(('before', 'return Ok(', 0,
           'proof { assert(decoded_ok(verif_s0, sat_mask, sig_mask, 0u64, Seq::<%s>::empty(), Seq::<%s>::empty())); '
           'assert(par.rest() =~= verif_s0.subrange(96, verif_s0.len() as int)); assert(decoded_wire(verif_s0, Seq::<%s>::empty(), Seq::<%s>::empty())); }' % (SAT, SIG, SAT, SIG)))
    B(('after', 'let cell_mask = par.parse_U64(sat_len * sig_len)?;', 0,
       'proof { crate::lemma_consume(verif_s0, 96, (sat_len * sig_len) as int); crate::lemma_uval_bits(cell_mask as int, (sat_len * sig_len) as nat); '
       'assert(wire_n(verif_s0) == sat_len * sig_len); assert(wire_cm(verif_s0) == cell_mask); }'))
    B(('before', 'Ok(%s {' % fr.struct.name, 1 if 'return Ok(' in fr.dec_body else 0,
       'proof { assert(decoded_ok(verif_s0, sat_mask, sig_mask, cell_mask, satellite_data@, signal_data@)); assert(decoded_wire(verif_s0, satellite_data@, signal_data@)); }'))
    sp.inserts.append(('after', 'let sig_len = mask_len_u32(sig_mask);', 0,
                       'proof { let a = sat_len as int; let b = sig_len as int; assert(a * b <= 64 * 32) by(nonlinear_arith) requires 0 <= a <= 64, 0 <= b <= 32; }'))
    vgen.emit_fn(vf, exp, path + ['fn:decode'], sp, label='%s::decode' % '::'.join(path[1:]), indent=ind, keep_pub=True)


LAYOUT = '''r is Ok ==> exists|sm: u64, gm: u32, cm: u64, n: int, ps: Seq<%(SAT)s>, pc: Seq<%(SIG)s>|
        #[trigger] layout_ok(value.satellite_data@, value.signal_data@, old(asm).bits(), final(asm).bits(), sm, gm, cm, n, ps, pc)'''

DEC_SPEC = '''
// C10, encode side: the whole data segment as written
pub open spec fn layout_ok(s: Seq<%(SAT)s>, c: Seq<%(SIG)s>, b0: Seq<bool>, b1: Seq<bool>, sm: u64, gm: u32, cm: u64, n: int, ps: Seq<%(SAT)s>, pc: Seq<%(SIG)s>) -> bool {
    &&& 0 <= n <= 64 && masks_ok(s, c, sm, gm, cm, n)
    &&& ps.to_multiset() == s.to_multiset() && %(SATM)s::sorted_rows(ps) && %(SATM)s::rows_enc(ps) is Some
    &&& pc.to_multiset() == c.to_multiset() && %(SIGM)s::sorted_rows(pc) && %(SIGM)s::rows_enc(pc) is Some
    &&& b1 == b0 + crate::bits_of_int(sm as int, 64) + crate::bits_of_int(gm as int, 32) + crate::bits_of_int(cm as int, n as nat)
            + %(SATM)s::rows_enc(ps)->Some_0 + %(SIGM)s::rows_enc(pc)->Some_0
}

// C10, decode side: the rows delivered are exactly the cells of the three masks read from the wire, in row-major order
pub open spec fn decoded_ok(rest: Seq<bool>, sm: u64, gm: u32, cm: u64, s: Seq<%(SAT)s>, c: Seq<%(SIG)s>) -> bool {
    let sats = crate::msg::ids64(sm, 64); let sigs = crate::msg::ids32(gm, 32); let n = sats.len() * sigs.len();
    &&& rest.len() >= 96 && crate::bits_of_int(sm as int, 64) == rest.subrange(0, 64) && crate::bits_of_int(gm as int, 32) == rest.subrange(64, 96)
    &&& if sm == 0 && gm == 0 { s.len() == 0 && c.len() == 0 } else {
            let cells = crate::msg::cells_upto(sats, sigs, cm, n as int, n);
            &&& 1 <= n <= 64 && rest.len() >= 96 + n && crate::bits_of_int(cm as int, n) == rest.subrange(96, 96 + n as int)
            &&& s.len() == sats.len() && forall|i: int| 0 <= i < sats.len() ==> (#[trigger] s[i]).satellite_id == sats[i]
            &&& c.len() == cells.len() && forall|i: int| 0 <= i < cells.len() ==> (#[trigger] c[i]).satellite_id == cells[i].0 && to_sig_spec(cells[i].1) == Some(c[i].signal_id)
        }
}
'''

DEC_WIRE = '''
// the same with the three masks read off the wire (no witnesses): sm/gm = the first 64/32 bits, cm = the next |sats|*|sigs| bits
pub open spec fn wire_sm(rest: Seq<bool>) -> u64 { crate::uval(rest.subrange(0, 64)) as u64 }
pub open spec fn wire_gm(rest: Seq<bool>) -> u32 { crate::uval(rest.subrange(64, 96)) as u32 }
pub open spec fn wire_n(rest: Seq<bool>) -> nat { crate::msg::ids64(wire_sm(rest), 64).len() * crate::msg::ids32(wire_gm(rest), 32).len() }
pub open spec fn wire_cm(rest: Seq<bool>) -> u64 { crate::uval(rest.subrange(96, 96 + wire_n(rest) as int)) as u64 }
pub open spec fn decoded_wire(rest: Seq<bool>, s: Seq<%(SAT)s>, c: Seq<%(SIG)s>) -> bool {
    rest.len() >= 96 && decoded_ok(rest, wire_sm(rest), wire_gm(rest), if wire_sm(rest) == 0 && wire_gm(rest) == 0 { 0u64 } else { wire_cm(rest) }, s, c)
}
'''

ENC_POST_MSM = 'r is Ok && !final(asm).poison() ==> enc(*value) is Some && final(asm).bits() == old(asm).bits() + enc(*value)->Some_0'


def split_clauses(txt):
    """clauses of the hand-written ensures block: each starts on a line indented by exactly 20 spaces"""
    out = []
    for ln in txt.split('\n'):
        if re.match(r'^ {20}(r is|final\()', ln):
            out.append(ln.strip())
        elif ln.strip() and out:
            out[-1] += '\n' + ln
    return [c.rstrip().rstrip(',') for c in out]
