#!/bin/bash
# Apply each seeded change to /repo, run the property's quick check, undo the change. Evidence of these runs goes to a scratch dir.
# usage: run_seeds.sh [ids...]   -> appends to seeded/RESULTS.md
cd "$(dirname "$0")/.."
ids=${@:-$(ls seeded | grep '^C')}
export RTCM_VERIF_EVIDENCE_DIR=$(mktemp -d /tmp/rtcm-seed-ev-XXXX)
for id in $ids; do
  [ -f seeded/$id/patch.diff ] || continue
  git -C /repo checkout -q -- . ; 
  if ! git -C /repo apply /verif/seeded/$id/patch.diff; then echo "| $id | patch does not apply | |" ; continue; fi
  s=$(date +%s)
  pid=$(echo $id | sed "s/[a-z]*$//")
  out=$(./check $pid --tier quick 2>&1)
  rc=$?
  git -C /repo checkout -q -- .
  line=$(echo "$out" | grep -E "^VIOLATION|^OK|^UNDECIDED|not claimed" | head -1 | cut -c1-260)
  obl=$(echo "$out" | grep -E "^FAILED-OBLIGATION" | head -3 | sed 's/FAILED-OBLIGATION property=[A-Z0-9]* //' | cut -c1-120 | tr '\n' ';')
  echo "| $id | rc=$rc $(( $(date +%s) - s ))s | $line | $obl |"
done
rm -rf $RTCM_VERIF_EVIDENCE_DIR
