#!/bin/bash
# usage: confirm_seed.sh <name> <patch.diff> <demo.rs>   -> prints CONFIRMED / REJECTED with reasons
# Confirms in a scratch worktree: (1) existing suite passes with the change, (2) demo fails with it, (3) demo passes without it.
name=$1; patch=$2; demo=$3
wt=/tmp/seedchk-$name
git -C /repo worktree remove --force $wt 2>/dev/null
git -C /repo worktree add -q --detach $wt HEAD || exit 2
cd $wt
ok=1
git apply $patch || { echo "REJECTED patch does not apply"; ok=0; }
if [ $ok = 1 ]; then
  CARGO_NET_OFFLINE=true cargo test --offline --target-dir $wt/target > $wt/suite.log 2>&1
  if grep -qE "FAILED|^error" $wt/suite.log; then echo "REJECTED existing suite fails with the change"; ok=0; fi
  passed=$(grep -E "^test result" $wt/suite.log | awk '{p+=$4} END {print p}')
  cp $demo tests/demo_$name.rs
  CARGO_NET_OFFLINE=true cargo test --offline --target-dir $wt/target --test demo_$name > $wt/demo_with.log 2>&1 && { echo "REJECTED demo passes with the change"; ok=0; }
  git apply -R $patch
  CARGO_NET_OFFLINE=true cargo test --offline --target-dir $wt/target --test demo_$name > $wt/demo_without.log 2>&1 || { echo "REJECTED demo fails without the change"; ok=0; }
fi
[ $ok = 1 ] && echo "CONFIRMED $name suite_passed=$passed demo_fails_with_change=yes demo_passes_without=yes"
cd /; git -C /repo worktree remove --force $wt
