"""Inventory of the `df!` data fields, read from the macro-expanded text of the current tree.

Every field's encode/decode body is parsed into its parameter set (carrier, width, resolution, bias,
rounding, invalid marker).  A body that does not have the df! shape raises ToolLimit (exit 2)."""
import re
import struct
from fractions import Fraction

import common
from rsx import ToolLimit
from vgen import strip_attrs_and_docs, norm_ws

NON_DF = {'df_desc_str_w_len', 'df_desc_str_w_len_u8', 'df_msg1029_utf8_str', 'df_msg1059_biases', 'df_msg1065_biases', 'df_msg1230_biases'}

CARRIER = {
    'U8': ('u8', 8, 'u'), 'U16': ('u16', 16, 'u'), 'U32': ('u32', 32, 'u'), 'U64': ('u64', 64, 'u'),
    'I8': ('i8', 8, 's'), 'I16': ('i16', 16, 's'), 'I32': ('i32', 32, 's'), 'I64': ('i64', 64, 's'),
    'SM8': ('i8', 8, 'sm'), 'SM16': ('i16', 16, 'sm'), 'SM32': ('i32', 32, 'sm'), 'SM64': ('i64', 64, 'sm'),
}
INT_TYPES = {'u8': (0, 2**8 - 1), 'u16': (0, 2**16 - 1), 'u32': (0, 2**32 - 1), 'u64': (0, 2**64 - 1), 'usize': (0, 2**64 - 1),
             'i8': (-2**7, 2**7 - 1), 'i16': (-2**15, 2**15 - 1), 'i32': (-2**31, 2**31 - 1), 'i64': (-2**63, 2**63 - 1)}


class Field:
    pass


def to_f32(x):
    return struct.unpack('f', struct.pack('f', x))[0]


def parse_int(s):
    s = s.strip().replace('_', '')
    neg = s.startswith('-')
    if neg:
        s = s[1:].strip()
    s = re.sub(r'(u8|u16|u32|u64|i8|i16|i32|i64|usize)$', '', s)
    v = int(s, 16) if s.startswith('0x') else int(s, 2) if s.startswith('0b') else int(s)
    return -v if neg else v


def eval_float_expr(expr, f32):
    """Evaluate a constant float expression the way rustc folds it (IEEE, type f64 or f32).
    Only literals, + - * /, parentheses are accepted."""
    e = expr.strip()
    if not re.fullmatch(r'[0-9eE_.+\-*/() f]*', e.replace('f64', '').replace('f32', '')):
        raise ToolLimit('unsupported constant expression %r' % expr)
    e = e.replace('_', '').replace('f64', '').replace('f32', '')
    toks = re.findall(r'\d+\.?\d*(?:[eE][+-]?\d+)?|[-+*/()]', e)
    pos = [0]

    def rnd(x):
        return to_f32(x) if f32 else x

    def atom():
        t = toks[pos[0]]
        if t == '(':
            pos[0] += 1
            v = expr_()
            pos[0] += 1
            return v
        if t == '-':
            pos[0] += 1
            return -atom()
        pos[0] += 1
        return rnd(float(t))

    def term():
        v = atom()
        while pos[0] < len(toks) and toks[pos[0]] in '*/':
            op = toks[pos[0]]
            pos[0] += 1
            w = atom()
            v = rnd(v * w) if op == '*' else rnd(v / w)
        return v

    def expr_():
        v = term()
        while pos[0] < len(toks) and toks[pos[0]] in '+-':
            op = toks[pos[0]]
            pos[0] += 1
            w = term()
            v = rnd(v + w) if op == '+' else rnd(v - w)
        return v
    v = expr_()
    if pos[0] != len(toks):
        raise ToolLimit('cannot parse constant expression %r' % expr)
    return v


def parse_field(name, mod, exp):
    f = Field()
    f.name = name
    txt = exp.text[mod.start:mod.end]
    m = re.search(r'pub type DataType\s*=\s*([^;]+);', txt)
    if not m:
        raise ToolLimit('df %s: no DataType' % name)
    f.datatype = norm_ws(m.group(1))
    f.optional = f.datatype.startswith('Option<')
    f.dt = f.datatype[7:-1].strip() if f.optional else f.datatype
    enc = dec = None
    for c in mod.children:
        if c.kind == 'fn' and c.name == 'encode':
            enc = norm_ws(strip_attrs_and_docs(exp.text[c.body_open + 1:c.end - 1]))
        if c.kind == 'fn' and c.name == 'decode':
            dec = norm_ws(strip_attrs_and_docs(exp.text[c.body_open + 1:c.end - 1]))
    if enc is None or dec is None:
        raise ToolLimit('df %s: encode/decode missing' % name)
    f.enc_text, f.dec_text = enc, dec
    # ---- decode shape
    m = re.match(r'let value = par\.parse::<(\w+)>\((\d+)\)\?; let mut dt_val = value as (\w+)( \* (.+?))?; (dt_val \+= (.+?); )?'
                 r'(if value == (.+?) \{ return Ok\(None\); \} else \{ return Ok\(Some\(dt_val\)\); \}|let _ = (.+?); return Ok\(dt_val\);)$', dec)
    if not m:
        raise ToolLimit('df %s: decode body does not have the df! shape: %s' % (name, dec))
    f.it, f.len = m.group(1), int(m.group(2))
    f.dec_cast = m.group(3)
    f.dec_res = m.group(5)
    f.dec_bias = m.group(7)
    f.dec_inv = m.group(9)
    if f.it not in CARRIER:
        raise ToolLimit('df %s: unknown carrier %s' % (name, f.it))
    f.vt, f.bits, f.kind = CARRIER[f.it]
    # ---- encode shape
    pat = (r'(if value\.is_none\(\) \{ return asm\.put::<(\w+)>\((.+?), (\d+)\) \} let value = &value\.unwrap\(\); )?'
           r'let mut value = \*value; '
           r'(if value >= (.+?) \{ value -= (.+?); \} else \{ return Err\(RtcmError::OutOfRange\); \} )?'
           r'(value /= (.+?); )?'
           r'(if (true|false) \{ value \+= if value (>=|>) 0\.0 \{ (-?[0-9.eE_]+) \} else \{ (-?[0-9.eE_]+) \}; \} )?'
           r'let value = value as <(\w+) as BitValue>::ValueType; asm\.put::<(\w+)>\(value, (\d+)\)$')
    m = re.match(pat, enc)
    if not m:
        raise ToolLimit('df %s: encode body does not have the df! shape: %s' % (name, enc))
    f.enc_inv = m.group(3)
    f.enc_inv_it, f.enc_inv_len = m.group(2), m.group(4)
    f.enc_bias = m.group(6)
    f.enc_bias2 = m.group(7)
    f.enc_res = m.group(9)
    f.round = (m.group(11) == 'true') if m.group(10) else None
    f.round_op, f.round_pos, f.round_neg = m.group(12), m.group(13), m.group(14)
    f.enc_cast_it, f.enc_it, f.enc_len = m.group(15), m.group(16), int(m.group(17))
    f.is_float = f.dt in ('f32', 'f64')
    if not f.is_float and f.dt not in INT_TYPES:
        raise ToolLimit('df %s: unsupported data type %s' % (name, f.dt))
    return f


def fields():
    exp = common.expanded_source()
    dfs = exp.find(['df', 'dfs'])
    out = []
    others = []
    for c in dfs.children:
        if c.kind != 'mod':
            continue
        if c.name in NON_DF:
            others.append(c.name)
            continue
        out.append(parse_field(c.name, c, exp))
    if not out:
        raise ToolLimit('no data fields found in df::dfs')
    return out, others


BIAS_MODS = ('df_msg1059_biases', 'df_msg1065_biases', 'df_msg1230_biases')
RE_BIAS_ENC = re.compile(r'let mut bias = (\w+)\.bias_m; bias /= ([0-9.eE_]+); let bias = if bias (>=|>) 0\.0 \{ bias \+ ([0-9.]+) \} else \{ bias - ([0-9.]+) \} as (\w+); '
                         r'asm\.put::<(\w+)>\(bias, (\d+)\)\?;')
RE_BIAS_DEC = (re.compile(r'let bias = par\.parse::<(\w+)>\((\d+)\)\? as (f32|f64);.*?bias_m: bias \* ([0-9.eE_]+)'),
               re.compile(r'let bias_m = \(par\.parse::<(\w+)>\((\d+)\)\? as (f32|f64)\) \* ([0-9.eE_]+);'))


def bias_fields():
    """The three hand-written bias quantisers (C11 anchors; C16 'bias on its grid'), read into the same parameter record as a df! field."""
    exp = common.expanded_source()
    dfs = exp.find(['df', 'dfs'])
    out = []
    for c in dfs.children:
        if c.kind != 'mod' or c.name not in BIAS_MODS:
            continue
        enc = dec = None
        for d in c.children:
            if d.kind == 'fn' and d.name == 'encode':
                enc = norm_ws(strip_attrs_and_docs(exp.text[d.body_open + 1:d.end - 1]))
            if d.kind == 'fn' and d.name == 'decode':
                dec = norm_ws(strip_attrs_and_docs(exp.text[d.body_open + 1:d.end - 1]))
        if enc is None or dec is None:
            raise ToolLimit('%s: encode/decode missing' % c.name)
        me = RE_BIAS_ENC.findall(enc)
        md = [m for r in RE_BIAS_DEC for m in r.findall(dec)]
        if len(me) != 1 or len(md) != 1:
            raise ToolLimit('%s: the bias quantiser does not have the expected shape (encode matches: %d, decode matches: %d)' % (c.name, len(me), len(md)))
        (_, res, op, cp, cn, cast, it, ln) = me[0]
        (dit, dln, dcast, dres) = md[0]
        if it not in CARRIER or dit not in CARRIER:
            raise ToolLimit('%s: unknown carrier %s/%s' % (c.name, it, dit))
        f = Field()
        f.name = c.name + '__bias_m'
        f.datatype = f.dt = dcast
        f.optional = False
        f.is_float = True
        f.enc_text, f.dec_text = enc, dec
        f.it, f.len, f.dec_cast, f.dec_res, f.dec_bias, f.dec_inv = dit, int(dln), dcast, dres, None, None
        f.vt, f.bits, f.kind = CARRIER[dit]
        f.enc_inv = f.enc_inv_it = f.enc_inv_len = f.enc_bias = f.enc_bias2 = None
        f.enc_res = res
        f.round, f.round_op, f.round_pos, f.round_neg = True, op, cp, '-' + cn
        f.enc_cast_it = it if CARRIER[it][0] == cast else cast
        f.enc_it, f.enc_len = it, int(ln)
        f.hand_written = True
        out.append(f)
    if len(out) != len(BIAS_MODS):
        raise ToolLimit('bias modules found: %s, expected %s' % ([f.name for f in out], list(BIAS_MODS)))
    return out


def pattern_range(f):
    """decoded integer range of the carrier value for every w-bit pattern"""
    w = f.len
    if f.kind == 'u':
        return 0, 2**w - 1
    if f.kind == 's':
        return -2**(w - 1), 2**(w - 1) - 1
    return -(2**(w - 1) - 1), 2**(w - 1) - 1


if __name__ == '__main__':
    fs, oth = fields()
    import collections
    print(len(fs), 'fields;', collections.Counter((f.dt, f.kind) for f in fs))
    print('others', oth)
    for f in fs:
        if f.is_float and f.round is not True:
            print('float no-round', f.name, f.round, f.enc_res)
        if (f.enc_it, f.enc_len, f.enc_inv, f.enc_res, f.enc_bias) != (f.it, f.len, f.dec_inv, f.dec_res, f.dec_bias):
            print('ASYM', f.name, (f.enc_it, f.enc_len, f.enc_inv, f.enc_res, f.enc_bias), (f.it, f.len, f.dec_inv, f.dec_res, f.dec_bias))
    print(sorted(set((f.dt, f.len) for f in fs if f.is_float)))
