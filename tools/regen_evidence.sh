#!/bin/bash
# Re-run every registered quick check on the current (unchanged) tree and rewrite all evidence files.
cd "$(dirname "$0")/.."
for id in $(python3 -c "import json;print(' '.join(c['property_id'] for c in json.load(open('MANIFEST.json'))['checks']))"); do
  s=$(date +%s)
  out=$(./check $id --tier ${1:-quick} 2>&1 | grep -E "^OK|^VIOLATION|^UNDECIDED|^KNOWN|^TOOL" | cut -c1-220 | tr '\n' ' ')
  echo "$id rc=$? $(( $(date +%s) - s ))s $out"
done
