"""Unit l0contract (C07, thorough tier): the function contracts annotated in place on Assembler::put / Parser::parse
(cfg_attr(kani, kani::requires/ensures/modifies), hook H2) are proved per carrier with #[kani::proof_for_contract], and a
caller is proved against the contract alone with #[kani::stub_verified] (the callee body is not inlined)."""
import common
import kani_engine
import unit_l0bits
from vgen import Oblig
from rsx import ToolLimit

HEAD = '''// Engine K, unit l0contract: in-place function contracts of the bit codec (carrier-independent part: error iff the field does
// not fit, cursor movement, nothing but the cursor (and, for put, the buffer) is written).
use crate::df::assembler::Assembler;
use crate::df::bit_value::*;
use crate::df::parser::Parser;
use crate::rtcm_error::RtcmError;
impl kani::Arbitrary for RtcmError { fn any() -> Self { RtcmError::BufferOverflow } }
'''


def harness(c, vt, w):
    return '''
#[kani::proof_for_contract(Assembler::put)]
#[kani::unwind(%(u)d)]
fn contract_put_%(c)s() {
    let mut data: [u8; %(w)d] = kani::any();
    let n: usize = kani::any();
    kani::assume(n <= %(w)d);
    let offset: usize = kani::any();
    let len: usize = kani::any();
    let v: %(vt)s = kani::any();
    let mut asm = Assembler::new(&mut data[..n], offset);
    let _ = asm.put::<%(c)s>(v, len);
}
#[kani::proof_for_contract(Parser::parse)]
#[kani::unwind(%(u)d)]
fn contract_parse_%(c)s() {
    let data: [u8; %(w)d] = kani::any();
    let n: usize = kani::any();
    kani::assume(n <= %(w)d);
    let offset: usize = kani::any();
    let len: usize = kani::any();
    let mut par = Parser::new(&data[..n], offset);
    let _ = par.parse::<%(c)s>(len);
}
''' % {'c': c, 'vt': vt, 'w': w, 'u': w + 1}


CALLERS = '''
// callers proved against the contracts only
#[kani::proof]
#[kani::stub_verified(Parser::parse)]
fn caller_decode_uses_parse_contract() {
    let data: [u8; 4] = kani::any();
    let mut par = Parser::new(&data, 0);
    let r = crate::df::dfs::df003::decode(&mut par);
    assert!(r.is_ok(), "l0contract.caller.decode_ok_when_it_fits");
    assert!(par.offset() == 12, "l0contract.caller.decode_width");
}
#[kani::proof]
#[kani::stub_verified(Assembler::put)]
fn caller_encode_uses_put_contract() {
    let mut data: [u8; 4] = kani::any();
    let v: u16 = kani::any();
    let mut asm = Assembler::new(&mut data, 0);
    let r = crate::df::dfs::df003::encode(&mut asm, &v);
    assert!(r.is_ok(), "l0contract.caller.encode_ok_when_it_fits");
    assert!(asm.offset() == 12, "l0contract.caller.encode_width");
}
'''


def run(tier, seed):
    from units import UnitResult
    ur = UnitResult('l0contract', 'kani-cbmc-cadical(function-contracts)')
    src = open(common.REPO + '/src/df/parser.rs').read() + open(common.REPO + '/src/df/assembler.rs').read()
    if src.count('kani::ensures') < 4:
        raise ToolLimit('in-place Kani contracts (hook H2) not found on Parser::parse / Assembler::put')
    carriers = unit_l0bits.inventory()
    text = HEAD
    names = []
    for c in carriers:
        vt, bits, kind = unit_l0bits.CARRIERS[c]
        w = min(bits // 8 + 1, 3)      # the contract clauses are value independent; the window only has to cover every alignment of the cursor
        text += harness(c, vt, w)
        names += ['contract_put_' + c, 'contract_parse_' + c]
    text += CALLERS
    names += ['caller_decode_uses_parse_contract', 'caller_encode_uses_put_contract']
    out = kani_engine.run_kani(text, names, tag='l0contract', timeout=14000, cfgs=('rtcm_rs_verif_contracts',), jobs=3)    # CBMC's contract instrumentation needs several GB per harness
    ur.cmds.append(out['cmd'])
    ur.wall_s = out['wall_s']
    for h in names:
        r = out['results'][h]
        ur.solver_s += r['time_s'] or 0
        if r['status'] == 'tool':
            ur.tool_errors.append('l0contract %s: %s' % (h, r['detail'][-1000:]))
            continue
        fn = 'Assembler::put' if '_put_' in h or 'encode' in h else 'Parser::parse'
        ob = Oblig('l0contract.%s' % h, {'C07'}, 'kani-contract', fn,
                   'requires len in 1..=BITS; ensures Ok iff the field fits, cursor += len on Ok / unchanged on Err; modifies only the cursor%s' % (' and the buffer' if fn.endswith('put') else ''))
        if r['status'] == 'failed':
            ob.failed = [r['detail'][-1500:]]
        ur.obligs.append(ob)
    ur.functions = [{'name': 'Assembler::put (in-place kani contract)', 'lo': 0, 'hi': 0, 'origin': 'src/df/assembler.rs', 'path': 'put', 'n_requires': 1, 'n_ensures': 2, 'n_loops': 1},
                    {'name': 'Parser::parse (in-place kani contract)', 'lo': 0, 'hi': 0, 'origin': 'src/df/parser.rs', 'path': 'parse', 'n_requires': 1, 'n_ensures': 2, 'n_loops': 1}]
    ur.bounded.append('l0contract: buffer window = min(carrier bytes + 1, 3) (the contract proofs are value-independent; the value-level postconditions are in unit l0bits)')
    ur.trusted.append('Kani function contracts (-Z function-contracts, CBMC dfcc); stub_verified replaces the callee by its contract')
    return ur
