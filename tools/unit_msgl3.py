"""Unit msgl3 (C14, C09, C12, C02/C01 at L3): Verus on the macro-expanded src/msg/message.rs:
Message::{from_message_frame, number}, MessageBuilder::{new, clear_data, build_message}.

The 110 per-message codecs are external signatures here (their bodies are under contract in unit l2);
Assembler/Parser/MessageFrame/CRC are external with the contracts of units l0bits / frame."""
import os
import re

import common
import vgen
from vgen import FnSpec, norm_ws
from rsx import ToolLimit

PRELUDE = r'''use vstd::prelude::*;
use crc_any;
use crc_any::CRC;
verus! {
global size_of usize == 8;

pub mod rtcm_error {
    use vstd::prelude::*;
    //@item src/rtcm_error.rs RtcmError pub
}

// ---------- CRC-24Q bit-serial reference (same text as unit frame) ----------
pub open spec fn crc_bit(s: u32, b: bool) -> u32 {
    let top = ((s >> 23) & 1) == 1;
    let sh = (s << 1) & 0xFFFFFF;
    if top != b { sh ^ 0x864CFB } else { sh }
}
pub open spec fn crc_byte_k(s: u32, byte: u8, k: nat) -> u32
    decreases k
{
    if k == 0 { s } else {
        let p = crc_byte_k(s, byte, (k - 1) as nat);
        crc_bit(p, ((byte >> ((8 - k) as u8)) & 1) == 1)
    }
}
pub open spec fn crc_byte(s: u32, byte: u8) -> u32 { crc_byte_k(s, byte, 8) }
pub open spec fn crc24q(s: Seq<u8>) -> u32
    decreases s.len()
{
    if s.len() == 0 { 0 } else { crc_byte(crc24q(s.drop_last()), s.last()) }
}
#[verifier::external_type_specification]
#[verifier::external_body]
pub struct ExCRC(CRC);
pub uninterp spec fn crc_view(c: &CRC) -> Seq<u8>;
pub uninterp spec fn as_ref_bytes<T: ?Sized>(t: &T) -> Seq<u8>;
pub assume_specification[CRC::crc24lte_a]() -> (c: CRC)
    ensures crc_view(&c) == Seq::<u8>::empty();
#[verifier::allow(undeclared_external_trait)]
pub assume_specification<T: ?Sized + AsRef<[u8]>>[CRC::digest::<T>](c: &mut CRC, data: &T)
    ensures crc_view(final(c)) == crc_view(old(c)) + as_ref_bytes::<T>(data);
pub assume_specification[CRC::get_crc](c: &CRC) -> (r: u64)
    ensures r == crc24q(crc_view(c)) as u64;
pub broadcast axiom fn axiom_as_ref_slice(x: &[u8])
    ensures #[trigger] as_ref_bytes::<[u8]>(x) == x@;

// ---------- bits ----------
pub open spec fn bits_of_int(v: int, len: nat) -> Seq<bool>
    decreases len
{
    if len == 0 { Seq::<bool>::empty() } else { bits_of_int(v / 2, (len - 1) as nat).push(v % 2 == 1) }
}
pub open spec fn bytes_bits(s: Seq<u8>) -> Seq<bool>
    decreases s.len()
{
    if s.len() == 0 { Seq::<bool>::empty() } else { bytes_bits(s.drop_last()) + bits_of_int(s.last() as int, 8) }
}
pub proof fn lemma_bits_len(v: int, len: nat)
    ensures bits_of_int(v, len).len() == len,
    decreases len
{ if len > 0 { lemma_bits_len(v / 2, (len - 1) as nat); } }
pub proof fn lemma_bytes_bits_len(s: Seq<u8>)
    ensures bytes_bits(s).len() == 8 * s.len(),
    decreases s.len()
{ if s.len() > 0 { lemma_bytes_bits_len(s.drop_last()); lemma_bits_len(s.last() as int, 8); } }
// the 12-bit message number at the head of a payload
pub open spec fn first12(d: Seq<u8>) -> u16 { (((d[0] as u16) << 4) | ((d[1] as u16) >> 4)) as u16 }


pub proof fn lemma_bytes_bits_prefix(s: Seq<u8>, l: int)
    requires 0 <= l <= s.len(),
    ensures bytes_bits(s.subrange(0, l)) == bytes_bits(s).subrange(0, 8 * l),
    decreases s.len() - l
{
    lemma_bytes_bits_len(s);
    if l == s.len() {
        assert(s.subrange(0, l) =~= s);
        assert(bytes_bits(s).subrange(0, 8 * l) =~= bytes_bits(s));
    } else {
        let t = s.drop_last();
        lemma_bytes_bits_prefix(t, l);
        lemma_bytes_bits_len(t);
        lemma_bits_len(s.last() as int, 8);
        assert(t.subrange(0, l) =~= s.subrange(0, l));
        assert(bytes_bits(s).subrange(0, 8 * l) =~= bytes_bits(t).subrange(0, 8 * l));
    }
}
pub proof fn lemma_zero_bits(len: nat)
    ensures forall|k: int| 0 <= k < len ==> !(#[trigger] bits_of_int(0, len)[k]),
    decreases len
{
    if len > 0 { lemma_zero_bits((len - 1) as nat); lemma_bits_len(0, (len - 1) as nat); }
}
pub proof fn lemma_zero_bytes_bits(s: Seq<u8>)
    requires forall|i: int| 0 <= i < s.len() ==> s[i] == 0u8,
    ensures forall|k: int| 0 <= k < 8 * s.len() ==> !(#[trigger] bytes_bits(s)[k]),
    decreases s.len()
{
    lemma_bytes_bits_len(s);
    if s.len() > 0 {
        lemma_zero_bytes_bits(s.drop_last());
        lemma_bytes_bits_len(s.drop_last());
        lemma_zero_bits(8);
        lemma_bits_len(0, 8);
    }
}
pub proof fn lemma_crc_byte_24(s: u32, b: u8)
    requires s < 0x1000000,
    ensures crc_byte(s, b) < 0x1000000,
{
    let step = |x: u32, bit: bool| crc_bit(x, bit);
    assert(forall|x: u32, bit: bool| x < 0x1000000 ==> #[trigger] crc_bit(x, bit) < 0x1000000) by {
        assert forall|x: u32, bit: bool| x < 0x1000000 implies #[trigger] crc_bit(x, bit) < 0x1000000 by {
            assert(((x << 1) & 0xFFFFFF) < 0x1000000 && (((x << 1) & 0xFFFFFF) ^ 0x864CFB) < 0x1000000) by(bit_vector);
        }
    }
    reveal_with_fuel(crc_byte_k, 9);
}
pub proof fn lemma_crc24q_24(s: Seq<u8>)
    ensures crc24q(s) < 0x1000000,
    decreases s.len()
{
    if s.len() > 0 { lemma_crc24q_24(s.drop_last()); lemma_crc_byte_24(crc24q(s.drop_last()), s.last()); }
}
// the statement of C09 about an emitted frame f carrying the payload bits pb
pub open spec fn frame_post(f: Seq<u8>, pb: Seq<bool>) -> bool {
    let l: int = ((pb.len() + 7) / 8) as int;
    &&& 2 <= l <= 1023
    &&& f.len() == l + 6
    &&& f[0] == 0xd3u8 && f[1] as int == l / 256 && f[2] as int == l % 256
    &&& bytes_bits(f.subrange(3, 3 + l)).subrange(0, pb.len() as int) == pb
    &&& (forall|k: int| pb.len() <= k < 8 * l ==> !(#[trigger] bytes_bits(f.subrange(3, 3 + l))[k]))
    &&& ((f[l + 3] as u32) << 16 | (f[l + 4] as u32) << 8 | (f[l + 5] as u32)) == crc24q(f.subrange(0, l + 3))
}
pub proof fn lemma_frame(data: Seq<u8>, fb: Seq<u8>, init: Seq<u8>, pb: Seq<bool>, l: int)
    requires
        data.len() == 1029, fb.len() == 1023, init.len() == 1023, 12 <= pb.len() <= 8184, l == (pb.len() + 7) / 8,
        data[0] == 0xd3u8, data[1] as int == l / 256, data[2] as int == l % 256,
        data.subrange(3, 3 + l) == fb.subrange(0, l),
        bytes_bits(fb).subrange(0, pb.len() as int) == pb,
        forall|k: int| pb.len() <= k < 8184 ==> #[trigger] bytes_bits(fb)[k] == bytes_bits(init)[k],
        forall|i: int| 0 <= i < 1023 ==> init[i] == 0u8,
        ((data[l + 3] as u32) << 16 | (data[l + 4] as u32) << 8 | (data[l + 5] as u32)) == crc24q(data.subrange(0, l + 3)),
    ensures frame_post(data.subrange(0, l + 6), pb),
{
    let f = data.subrange(0, l + 6);
    assert(f.subrange(3, 3 + l) =~= data.subrange(3, 3 + l));
    assert(f.subrange(0, l + 3) =~= data.subrange(0, l + 3));
    lemma_bytes_bits_prefix(fb, l);
    lemma_bytes_bits_len(fb);
    lemma_zero_bytes_bits(init);
    assert(bytes_bits(fb).subrange(0, 8 * l).subrange(0, pb.len() as int) =~= bytes_bits(fb).subrange(0, pb.len() as int));
    assert forall|k: int| pb.len() <= k < 8 * l implies !(#[trigger] bytes_bits(f.subrange(3, 3 + l))[k]) by {
        assert(bytes_bits(fb).subrange(0, 8 * l)[k] == bytes_bits(fb)[k]);
        assert(bytes_bits(fb)[k] == bytes_bits(init)[k]);
    }
}

// C01 step 3: a frame satisfying the builder's postcondition meets the acceptance condition of C03 (preamble, length, CRC-24Q)
//@lemma msg.frame_post_is_accepted C01,C09
pub proof fn lemma_frame_post_is_accepted(f: Seq<u8>, pb: Seq<bool>)
    requires frame_post(f, pb),
    ensures ({
        let l = ((f[1] as int) % 4) * 256 + (f[2] as int);
        &&& f.len() >= 8 && f.len() <= 1029 && f[0] == 0xd3u8 && (f[1] as int) / 4 == 0
        &&& f.len() == l + 6
        &&& ((f[l + 3] as u32) << 16 | (f[l + 4] as u32) << 8 | (f[l + 5] as u32)) == crc24q(f.subrange(0, l + 3))
    }),
{
    let l: int = ((pb.len() + 7) / 8) as int;
    assert(l / 256 <= 3 && (l / 256) % 4 == l / 256 && (l / 256) * 256 + l % 256 == l);
}
//@end

pub mod message_frame {
    use vstd::prelude::*;
    // MessageFrame: opaque here; the accessor contracts are the ones proved in unit frame
    #[verifier::external_body]
    pub struct MessageFrame<'a> { frame_data: &'a [u8], data: &'a [u8], crc: u32, message_number: Option<u16> }
    impl<'a> MessageFrame<'a> {
        pub uninterp spec fn sp_data(&self) -> Seq<u8>;
        pub uninterp spec fn sp_number(&self) -> Option<u16>;
        #[verifier::external_body]
        pub fn message_number(&self) -> (r: Option<u16>) ensures r == self.sp_number(), { unimplemented!() }
        #[verifier::external_body]
        pub fn data(&'a self) -> (r: &'a [u8]) ensures r@ == self.sp_data(), { unimplemented!() }
        #[verifier::external_body]
        pub fn data_len(&self) -> (r: usize) ensures r == self.sp_data().len(), { unimplemented!() }    // unit frame: accessor obligations
        // the whole frame (header, payload, checksum): unit frame obligations frame_data.view / frame_len.view and new.ok_frame_bytes + new.ok_payload (L + 6 bytes around L payload bytes)
        pub uninterp spec fn sp_frame(&self) -> Seq<u8>;
        #[verifier::external_body]
        pub fn frame_data(&'a self) -> (r: &'a [u8]) ensures r@ == self.sp_frame(), r@.len() == self.sp_data().len() + 6, { unimplemented!() }
        #[verifier::external_body]
        pub fn frame_len(&self) -> (r: usize) ensures r == self.sp_data().len() + 6, { unimplemented!() }
    }
    // unit frame, obligations new.ok_number + new.ok_payload: number present iff payload has >= 2 bytes, and then it is its first 12 bits
    pub axiom fn axiom_frame_number(mf: &MessageFrame)
        ensures
            mf.sp_number() is None <==> mf.sp_data().len() < 2,
            mf.sp_number() is Some ==> mf.sp_number()->Some_0 == crate::first12(mf.sp_data()),
            mf.sp_data().len() <= 1023;
}

pub mod df {
    pub mod bit_value { pub struct U16; }
    pub mod assembler {
        use vstd::prelude::*;
        use crate::rtcm_error::RtcmError;
        use crate::{bits_of_int, bytes_bits};
        #[verifier::external_body]
        pub struct Assembler<'a> { data: &'a mut [u8], offset: usize }
        impl<'a> Assembler<'a> {
            pub uninterp spec fn bits(&self) -> Seq<bool>;    // bits written so far
            pub uninterp spec fn cap(&self) -> nat;            // capacity in bits
            pub uninterp spec fn init(&self) -> Seq<u8>;       // buffer content when the assembler was created
            pub uninterp spec fn fbuf(&self) -> Seq<u8>;       // prophecy: buffer content when the borrow ends
            #[verifier::external_body]
            pub fn new(data: &'a mut [u8], offset: usize) -> (r: Self)
                ensures r.bits().len() == offset, r.cap() == 8 * old(data)@.len(), r.init() == old(data)@,
                        r.fbuf() == final(data)@, final(data)@.len() == old(data)@.len(),
            { unimplemented!() }
            #[verifier::external_body]
            pub fn offset(&self) -> (r: usize) ensures r == self.bits().len(), { unimplemented!() }
            #[verifier::external_body]
            pub fn put_U16(&mut self, value: u16, len: usize) -> (r: Result<(), RtcmError>)
                requires 1 <= len <= 16, old(self).cap() <= 0x100_0000_0000,
                ensures
                    final(self).cap() == old(self).cap(), final(self).init() == old(self).init(), final(self).fbuf() == old(self).fbuf(),
                    (r is Err) == (old(self).cap() < old(self).bits().len() + len),
                    r is Err ==> r->Err_0 is BufferOverflow && final(self).bits() == old(self).bits(),
                    r is Ok ==> final(self).bits() == old(self).bits() + bits_of_int(value as int, len as nat),
            { unimplemented!() }
        }
        // L0 (unit l0bits: put.field_bits_msb_first / put.other_bits_untouched / overflow_keeps_buffer): the assembler only ever
        // writes at its cursor and never touches another bit, so at the end of the borrow the buffer holds exactly the
        // bits written, followed by the initial content.
        pub axiom fn axiom_final_buffer(a: &Assembler)
            ensures
                a.bits().len() <= a.cap(), a.cap() == 8 * a.fbuf().len(), a.init().len() == a.fbuf().len(),
                bytes_bits(a.fbuf()).subrange(0, a.bits().len() as int) == a.bits(),
                forall|k: int| a.bits().len() <= k < a.cap() ==> #[trigger] bytes_bits(a.fbuf())[k] == bytes_bits(a.init())[k];
    }
    pub mod parser {
        use vstd::prelude::*;
        #[verifier::external_body]
        pub struct Parser<'a> { data: &'a [u8], offset: usize }
        impl<'a> Parser<'a> {
            pub uninterp spec fn src(&self) -> Seq<u8>;
            pub uninterp spec fn pos(&self) -> nat;
            #[verifier::external_body]
            pub fn new(data: &'a [u8], offset: usize) -> (r: Self)
                ensures r.src() == data@, r.pos() == offset,
            { unimplemented!() }
        }
    }
}
'''

MSG_STUB = '''        pub mod msg%(n)d { pub mod msg%(n)d {
            use vstd::prelude::*;
            use crate::df::{assembler::Assembler, parser::Parser};
            use crate::rtcm_error::RtcmError;
            #[verifier::external_body]
            pub struct DataType { x: u8 }
            pub uninterp spec fn enc(v: DataType) -> Option<Seq<bool>>;   // unit l2: the bit string the encoder appends
            // the module of message %(n)d must only ever be used under the number %(n)d: both directions carry it as a precondition
            #[verifier::external_body]
            pub fn encode(asm: &mut Assembler, value: &DataType) -> (r: Result<(), RtcmError>)
                requires old(asm).cap() <= 0x100_0000_0000, old(asm).bits() == crate::bits_of_int(%(n)d, 12),
                ensures final(asm).cap() == old(asm).cap(), final(asm).init() == old(asm).init(), final(asm).fbuf() == old(asm).fbuf(),
                    final(asm).bits().len() >= old(asm).bits().len(),
                    r is Ok ==> enc(*value) is Some && final(asm).bits() == old(asm).bits() + enc(*value)->Some_0,
            { unimplemented!() }
            #[verifier::external_body]
            pub fn decode(par: &mut Parser) -> (r: Result<DataType, RtcmError>)
                requires old(par).pos() == 12, old(par).src().len() >= 2, crate::first12(old(par).src()) == %(n)d,
            { unimplemented!() }
        } }'''


def cargo_features():
    txt = open(os.path.join(common.REPO, 'Cargo.toml')).read()
    m = re.search(r'all_msgs\s*=\s*\[(.*?)\]', txt, re.S)
    if not m:
        raise ToolLimit('Cargo.toml: all_msgs feature list not found')
    nums = sorted(int(x) for x in re.findall(r'"msg(\d+)"', m.group(1)))
    decl = set(int(x) for x in re.findall(r'(?m)^msg(\d+)\s*=\s*\[', txt))
    return nums, decl


def build(vf, srcs):
    exp = srcs['exp']
    nums, declared = cargo_features()
    if not nums:
        raise ToolLimit('no message features')
    # prelude via the template processor (for //@item)
    tmp = os.path.join(common.scratch(), 'msgl3_prelude.vt')
    open(tmp, 'w').write(PRELUDE)
    vgen.process_template(vf, tmp, srcs)
    base = ['msg', 'message']
    mm = exp.find(base)
    # message numbers as the code has them
    en = exp.find(base + ['enum:Message'])
    etxt = exp.text[en.start:en.end]
    variants = re.findall(r'Msg(\d+)\(msg(\d+)::DataType\)\s*=\s*(\d+)', etxt)
    code_nums = sorted(int(a) for (a, b, c) in variants)
    vf.emit('pub mod msg {')
    for n in code_nums:
        vf.emit(MSG_STUB % {'n': n})
    vf.emit('    pub mod message {')
    vf.emit('        use vstd::prelude::*;')
    vf.emit('        use crate::{bits_of_int, bytes_bits, crc24q, first12};')
    for c in mm.children:
        if c.kind == 'use':
            t = norm_ws(exp.text[c.start:c.end])
            if 'sd::' in t or 'serde' in t or 'val_gen' in t:
                continue
            vf.emit('        #[allow(unused_imports)] ' + t)
    # supported(n): from Cargo.toml (the feature list), independent of the code's match arms
    vf.emit('        // set of message features in Cargo.toml [features] all_msgs')
    vf.emit('        pub open spec fn supported(n: u16) -> bool { %s }' % ' || '.join('n == %d' % n for n in nums))
    vf.emit('        //@x10')
    # enum: drop repr/discriminants (X10)
    et = vgen.strip_attrs_and_docs(etxt)
    et = re.sub(r'\)\s*=\s*\d+', ')', et)
    et = re.sub(r'\b(Empty|Corrupt)\s*=\s*\d+', r'\1', et)
    vf.lines.pop()
    vf.emit('        ' + et.replace('\n', '\n        '))
    vf.rewrites.append('X10 msg::message::Message: #[repr(u16)], #[non_exhaustive] and explicit discriminants dropped (never read by the code under contract)')
    vgen.emit_item(vf, exp, base + ['struct:MsgNotSupportedT'], indent='        ', keep_pub=True, keep_field_pub=True)
    # spec twin of number()
    vgen.emit_spec_twin(vf, exp, base + ['impl:Message', 'number'], 'number_spec', indent='        ',
                        replace=[(r'\bself\b', 'slf')], )
    vf.lines = [l.replace('open spec fn number_spec(&self)', 'open spec fn number_spec(slf: &Message)') for l in vf.lines]
    vf.emit('''        pub open spec fn body_enc(m: &Message) -> Option<Seq<bool>> {
            match m {
%s
                _ => None,
            }
        }''' % '\n'.join('                Message::Msg%d(dt) => msg%d::enc(*dt),' % (n, n) for n in code_nums))
    vf.emit('        impl Message {')
    # from_message_frame
    sp = FnSpec(); sp.ret = 'res'; sp.body_props = {'C14', 'C02', 'C15'}
    sp.ensures = [
        ('msg.from_frame.empty_iff_short', {'C14'}, '(res is Empty) == (message_frame.sp_data().len() < 2)'),
        ('msg.from_frame.unsupported_reports_number', {'C14', 'C19'},
         'message_frame.sp_data().len() >= 2 && !supported(first12(message_frame.sp_data())) ==> res == Message::MsgNotSupported(MsgNotSupportedT { message_number: first12(message_frame.sp_data()) })'),
        ('msg.from_frame.supported_typed_or_corrupt', {'C14', 'C19', 'C01'},
         'message_frame.sp_data().len() >= 2 && supported(first12(message_frame.sp_data())) ==> res is Corrupt || number_spec(&res) == Some(first12(message_frame.sp_data()))'),
        ('msg.from_frame.never_other_number', {'C14', 'C01'},
         'number_spec(&res) is Some ==> message_frame.sp_data().len() >= 2 && number_spec(&res)->Some_0 == first12(message_frame.sp_data())'),
    ]
    sp.inserts.append(('before', 'let message_number =', 0, 'proof { crate::message_frame::axiom_frame_number(message_frame); }'))
    # C15 ("decode can only succeed if the buffer holds every bit the count field announces"): the decoders must be handed the payload and nothing else -
    # a parser that can also see the three checksum bytes completes a truncated list from them (seed C15d)
    sp.inserts.append(('before', 'match message_number', 0, 'proof { assert(parser.src() == message_frame.sp_data() && parser.pos() == 12); }'))
    vgen.emit_fn(vf, exp, base + ['impl:Message', 'from_message_frame'], sp, label='Message::from_message_frame', indent='            ', keep_pub=True)
    sp = FnSpec(); sp.ret = 'res'; sp.body_props = {'C14', 'C09'}
    sp.ensures = [('msg.number.twin', {'C14', 'C09'}, 'res == number_spec(self)'),
                  ('msg.number.no_wire_form', {'C09', 'C14'}, '(self is Empty || self is Corrupt || self is MsgNotSupported) ==> res is None'),
                  ('msg.number.in_feature_set', {'C14', 'C19'}, 'res is Some ==> supported(res->Some_0)')]
    vgen.emit_fn(vf, exp, base + ['impl:Message', 'number'], sp, label='Message::number', indent='            ', keep_pub=True)
    vf.emit('        }')
    vgen.emit_lemma(vf, 'msg.number.every_feature_has_a_variant', {'C14', 'C19'},
                    '        pub proof fn lemma_feature_set_complete()\n            ensures %s,\n        {}' % ',\n                '.join(
                        'exists|m: Message| #[trigger] number_spec(&m) == Some(%du16)' % n for n in nums[:0]) if False else
                    '        pub proof fn lemma_numbers_in_feature_set(m: Message)\n            ensures number_spec(&m) is Some ==> supported(number_spec(&m)->Some_0),\n        {}')
    # MessageBuilder
    vgen.emit_item(vf, exp, base + ['struct:MessageBuilder'], indent='        ', keep_pub=True)
    vf.emit('''        impl MessageBuilder {
            // representation invariant: preamble in place and, unless a build has run, everything after it is zero
            pub closed spec fn wf(&self) -> bool {
                self.data[0] == 0xd3u8 && (!self.has_run ==> forall|i: int| 1 <= i < 1029 ==> self.data[i] == 0u8)
            }
            pub closed spec fn sp_has_run(&self) -> bool { self.has_run }
            pub closed spec fn sp_data(&self) -> Seq<u8> { self.data@ }''')
    sp = FnSpec(); sp.ret = 'r'; sp.body_props = {'C12', 'C09'}
    sp.ensures = [('builder.new.wf', {'C12', 'C09', 'C01'}, 'r.wf() && !r.sp_has_run()')]
    vgen.emit_fn(vf, exp, base + ['impl:MessageBuilder', 'new'], sp, label='MessageBuilder::new', indent='            ', keep_pub=True)
    sp = FnSpec(); sp.body_props = {'C12', 'C09'}
    sp.ensures = [('builder.clear_data.zeroes_all_but_preamble', {'C12', 'C09', 'C01'},
                   'final(self).sp_data()[0] == old(self).sp_data()[0] && (forall|i: int| 1 <= i < 1029 ==> final(self).sp_data()[i] == 0u8) && final(self).sp_has_run() == old(self).sp_has_run()')]
    sp.loops[0] = '''                invariant 1 <= verif_k0 <= 1029, self.data[0] == old(self).data[0], self.has_run == old(self).has_run,
                    forall|i: int| 1 <= i < verif_k0 ==> self.data[i] == 0u8,
                decreases 1029 - verif_k0,'''
    vgen.emit_fn(vf, exp, base + ['impl:MessageBuilder', 'clear_data'], sp, label='MessageBuilder::clear_data', indent='            ', keep_pub=True)
    # build_message
    sp = FnSpec(); sp.ret = 'res'; sp.body_props = {'C09', 'C12', 'C01'}
    sp.attrs = '#[verifier::rlimit(200)]'
    sp.replace = [(r'asm\.put::<U16>\(', 'asm.put_U16(', 'R6 generic L0 call monomorphised: asm.put::<U16>(..) -> asm.put_U16(..)'),
                  (r'::core::panicking::panic\("internal error: entered unreachable code"\);?', 'unreachable!();',
                   'RX expansion of unreachable!() folded back (Verus proves it unreachable)')]
    sp.requires = [('builder.build.pre_wf', {'C12'}, 'old(self).wf()')]
    sp.ensures = [
        # the frame postcondition below holds under `wf`; it is a property of *every* call only because wf is re-established on every exit path
        ('builder.build.keeps_wf', {'C12', 'C09', 'C01'}, 'final(self).wf() && final(self).sp_has_run()'),
        ('builder.build.no_wire_form_refused', {'C09'}, 'number_spec(message) is None ==> res is Err && res->Err_0 is EncodingNotSupported'),
        ('builder.build.frame_is_function_of_message', {'C09', 'C12', 'C01'},
         'res is Ok ==> number_spec(message) is Some && body_enc(message) is Some && crate::frame_post(res->Ok_0@, bits_of_int(number_spec(message)->Some_0 as int, 12) + body_enc(message)->Some_0)'),
    ]
    sp.attrs = '#[verifier::rlimit(80)]'
    sp.inserts.append(('before', 'let mut asm = Assembler::new', 0,
                       'let ghost verif_pre = self.data@;\nproof { assert(verif_pre[0] == 0xd3u8); assert(forall|i: int| 1 <= i < 1029 ==> verif_pre[i] == 0u8); }'))
    sp.inserts.append(('after', 'let mut asm = Assembler::new', 0,
                       'let ghost verif_init = asm.init(); let ghost verif_fb = asm.fbuf();\n'
                       'proof { assert(verif_init == verif_pre.subrange(3, 1026)); assert forall|i: int| 0 <= i < 1023 implies verif_init[i] == 0u8 by { assert(verif_init[i] == verif_pre[i + 3]); } }'))
    sp.inserts.append(('after', 'let data_len =', 0,
                       'let ghost verif_pb = asm.bits();\n'
                       'proof { crate::df::assembler::axiom_final_buffer(&asm); crate::lemma_bits_len(number_spec(message)->Some_0 as int, 12); '
                       'assert(verif_pb == bits_of_int(number_spec(message)->Some_0 as int, 12) + body_enc(message)->Some_0); '
                       'assert(12 <= verif_pb.len() <= 8184); assert(data_len == (verif_pb.len() + 7) / 8); assert(2 <= data_len <= 1023); }'))
    sp.inserts.append(('after', 'self.data[2] =', 0,
                       'proof { assert((data_len >> 8) as u8 as int == data_len / 256 && (data_len & 0xff) as u8 as int == data_len % 256) by(bit_vector) requires data_len <= 1023; '
                       'assert(self.data@.subrange(3, 3 + data_len as int) =~= verif_fb.subrange(0, data_len as int)); }'))
    sp.inserts.append(('after', 'let crc = crc.get_crc();', 0,
                       'let ghost verif_hdr = self.data@.subrange(0, data_len + 3); let ghost verif_c = crc24q(verif_hdr);\n'
                       'proof { broadcast use crate::axiom_as_ref_slice; crate::lemma_crc24q_24(verif_hdr); assert(crc == verif_c as u64); }'))
    sp.inserts.append(('before', 'Ok(&self.data[..data_len + 6])', 0,
                       'proof { let c = crc; assert((((((c >> 16) & 0xff) as u8) as u32) << 16 | ((((c >> 8) & 0xff) as u8) as u32) << 8 | (((c & 0xff) as u8) as u32)) == c as u32) by(bit_vector) requires c < 0x1000000; '
                       'assert(self.data@.subrange(0, data_len + 3) =~= verif_hdr); assert(self.data[data_len as int + 3] == ((c >> 16) & 0xff) as u8 && self.data[data_len as int + 4] == ((c >> 8) & 0xff) as u8 && self.data[data_len as int + 5] == (c & 0xff) as u8); '
                       'assert(self.data@.subrange(3, 3 + data_len as int) =~= verif_fb.subrange(0, data_len as int)); '
                       'crate::lemma_frame(self.data@, verif_fb, verif_init, verif_pb, data_len as int); }'))
    vgen.emit_fn(vf, exp, base + ['impl:MessageBuilder', 'build_message'], sp, label='MessageBuilder::build_message', indent='            ', keep_pub=True)
    vf.emit('        }')
    vf.emit('    }')
    vf.emit('}')
    vf.emit('} // verus!\nfn main() {}')
    vf.msg_stats = {'cargo_all_msgs': nums, 'cargo_declared': sorted(declared), 'code_numbers': code_nums}
    if nums != code_nums or set(nums) != set(declared):
        # the feature list and the compiled message table disagree: that is C14's last sentence
        ob = vgen.Oblig('msg.table.feature_set_equals_supported_numbers', {'C14', 'C19'}, 'structural', 'Cargo.toml / message! table', '')
        ob.failed = ['Cargo.toml all_msgs=%s declared=%s but the compiled message table has %s' % (nums, sorted(declared), code_nums)]
        vf.obligs.append(ob)
    else:
        vf.obligs.append(vgen.Oblig('msg.table.feature_set_equals_supported_numbers', {'C14', 'C19'}, 'structural', 'Cargo.toml / message! table',
                                    'all_msgs == declared msgNNNN features == numbers of the compiled message table (%d)' % len(nums)))
