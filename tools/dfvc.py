"""Engine S: generated verification conditions for the float-typed data fields (C08 float part, C11).

For every float field the expanded encode/decode bodies (already parsed into their parameter set by
dfinv, which rejects any other shape) are executed symbolically into linear real/integer arithmetic:

  * integer operations exact;
  * int -> float exact (checked: |p| < 2^mantissa);
  * every float + - * /  :  fl(x) = x + e with |e| <= u*|x|   (IEEE-754 standard model, u = 2^-53 / 2^-24;
    underflow/overflow excluded by a generated range side-condition);
  * constants = exact rational value of the expression as rustc folds it in the field's float type;
  * float -> int = truncation toward zero (saturation is shown unreachable by the range side condition);
  * put/parse by their L0 contracts (unit l0bits).

z3 must answer `unsat` for the negation of each obligation.  A `sat` answer carries a model, which is
replayed against the real codec by the native replay binary."""
import os
import subprocess
import time
from fractions import Fraction

import common
import dfinv
from rsx import ToolLimit
from vgen import Oblig


def q(fr):
    """SMT-LIB rational"""
    fr = Fraction(fr)
    if fr.denominator == 1:
        return str(fr.numerator) + '.0' if fr.numerator >= 0 else '(- %d.0)' % (-fr.numerator)
    s = '(/ %d.0 %d.0)' % (abs(fr.numerator), fr.denominator)
    return s if fr >= 0 else '(- %s)' % s


class Sym:
    """builds an SMT script with fresh rounding-error variables"""

    def __init__(self, u):
        self.u = Fraction(u)
        self.decls = []
        self.asserts = []
        self.n = 0
        self.consts = [Fraction(0)]   # representable constants: rounding is monotone and leaves them fixed

    def fresh(self, name, sort='Real'):
        self.n += 1
        v = '%s_%d' % (name, self.n)
        self.decls.append('(declare-const %s %s)' % (v, sort))
        return v

    def fl(self, x):
        """result of rounding the exact value x (an SMT term) to the float type"""
        e = self.fresh('e')
        ax = self.fresh('a')
        self.asserts.append('(= %s (ite (>= %s 0.0) %s (- %s)))' % (ax, x, x, x))
        self.asserts.append('(<= %s (* %s %s))' % (e, q(self.u), ax))
        self.asserts.append('(>= %s (- (* %s %s)))' % (e, q(self.u), ax))
        y = self.fresh('y')
        self.asserts.append('(= %s (+ %s %s))' % (y, x, e))
        for c in self.consts:
            # IEEE rounding is monotone and exact on representable values: x >= c ==> fl(x) >= c, x <= c ==> fl(x) <= c
            self.asserts.append('(=> (>= %s %s) (>= %s %s))' % (x, q(c), y, q(c)))
            self.asserts.append('(=> (<= %s %s) (<= %s %s))' % (x, q(c), y, q(c)))
        return y

    def trunc(self, x):
        k = self.fresh('k', 'Int')
        kr = '(to_real %s)' % k
        self.asserts.append('(ite (>= %s 0.0) (and (<= %s %s) (< %s (+ %s 1.0))) (and (>= %s %s) (> %s (- %s 1.0))))' % (x, kr, x, x, kr, kr, x, x, kr))
        return k

    def script(self, goal_negated, extra=()):
        return '\n'.join(['(set-logic QF_LIRA)'] + self.decls + ['(assert %s)' % a for a in self.asserts] + ['(assert %s)' % a for a in extra] +
                         ['(assert %s)' % goal_negated, '(check-sat)', '(get-model)'])


def params(f):
    f32 = f.dt == 'f32'
    P = {}
    P['u'] = Fraction(1, 2**24) if f32 else Fraction(1, 2**53)
    P['mant'] = 24 if f32 else 53
    P['Renc'] = Fraction(dfinv.eval_float_expr(f.enc_res, f32)) if f.enc_res else None
    P['Rdec'] = Fraction(dfinv.eval_float_expr(f.dec_res, f32)) if f.dec_res else None
    P['Benc'] = Fraction(dfinv.eval_float_expr(f.enc_bias, f32)) if f.enc_bias else None
    P['Benc2'] = Fraction(dfinv.eval_float_expr(f.enc_bias2, f32)) if f.enc_bias2 else None
    P['Bdec'] = Fraction(dfinv.eval_float_expr(f.dec_bias, f32)) if f.dec_bias else None
    P['inv_enc'] = dfinv.parse_int(f.enc_inv) if f.enc_inv else None
    P['inv_dec'] = dfinv.parse_int(f.dec_inv) if f.dec_inv else None
    return P


def sym_decode(S, f, P, p_real):
    """returns SMT term of the decoded float value for carrier integer p"""
    x = p_real
    if P['Rdec'] is not None:
        x = S.fl('(* %s %s)' % (x, q(P['Rdec'])))
    if P['Bdec'] is not None:
        x = S.fl('(+ %s %s)' % (x, q(P['Bdec'])))
    return x


def sym_encode(S, f, P, x):
    """returns (k, ok_condition) : integer written and the condition under which encode returns Ok"""
    ok = 'true'
    if P['Benc'] is not None:
        ok = '(>= %s %s)' % (x, q(P['Benc']))
        x = S.fl('(- %s %s)' % (x, q(P['Benc2'])))
    if P['Renc'] is not None:
        x = S.fl('(* %s %s)' % (x, q(1 / P['Renc'])))   # division by the constant R, one rounding
    if f.round:
        h = S.fresh('h')
        f32 = f.dt == 'f32'
        cp = Fraction(dfinv.eval_float_expr(f.round_pos, f32))
        cn = Fraction(dfinv.eval_float_expr(f.round_neg, f32))
        S.asserts.append('(= %s (ite (%s %s 0.0) (+ %s %s) (+ %s %s)))' % (h, f.round_op, x, x, q(cp), x, q(cn)))
        x = S.fl(h)
    k = S.trunc(x)
    return k, ok, x


def run_z3(script, workdir, name, timeout=60):
    path = os.path.join(workdir, name + '.smt2')
    with open(path, 'w') as fh:
        fh.write(script)
    t0 = time.time()
    try:
        p = subprocess.run(['z3', '-T:%d' % timeout, path], capture_output=True, text=True, timeout=timeout + 10)
        out = p.stdout
    except subprocess.TimeoutExpired:
        out = 'timeout'
    dt = time.time() - t0
    first = out.strip().split('\n')[0] if out.strip() else 'error'
    return first, out, dt


def side_conditions(f, P):
    """range side conditions under which the standard model applies; returns list of problems (tool limits)"""
    lo, hi = dfinv.pattern_range(f)
    probs = []
    if max(abs(lo), abs(hi)) >= 2**P['mant']:
        probs.append('carrier value exceeds the mantissa (int->float not exact)')
    for k in ('Renc', 'Rdec'):
        if P[k] is not None and not (Fraction(1, 2**100) <= P[k] <= 2**100):
            probs.append('%s outside 2^-100..2^100' % k)
        if P[k] is not None and P[k] <= 0:
            probs.append('%s not positive (monotonicity)' % k)
    for k in ('Benc', 'Bdec'):
        if P[k] is not None and abs(P[k]) > 2**100:
            probs.append('%s too large' % k)
    return probs


def field_obligations(f, workdir):
    """returns list of (oblig_id_suffix, props, status, detail, seconds, model)"""
    P = params(f)
    res = []
    probs = side_conditions(f, P)
    if probs:
        raise ToolLimit('df %s: %s' % (f.name, '; '.join(probs)))
    lo, hi = dfinv.pattern_range(f)
    # ---- structural facts (integer, decided here without a solver) --------------------------------
    structural = []
    structural.append(('enc_dec_same_carrier_and_width', f.enc_it == f.it and f.enc_len == f.len and f.enc_cast_it == f.it,
                       'encode uses %s/%s, decode %s/%s' % (f.enc_it, f.enc_len, f.it, f.len)))
    if f.optional:
        structural.append(('absent_pattern_unique', P['inv_enc'] is not None and P['inv_enc'] == P['inv_dec'] and lo <= P['inv_dec'] <= hi
                           and f.enc_inv_it == f.it and int(f.enc_inv_len) == f.len,
                           'None encodes to %r (%s/%s); decode maps %r to None; pattern range %d..%d' % (P['inv_enc'], f.enc_inv_it, f.enc_inv_len, P['inv_dec'], lo, hi)))
    else:
        structural.append(('no_absent_pattern', P['inv_enc'] is None and P['inv_dec'] is None, 'non-optional field with an invalid marker'))
    structural.append(('rounding_enabled', f.round is True, 'round flag is %r' % f.round))
    for (n, ok, why) in structural:
        res.append(('struct.' + n, {'C08', 'C01'}, 'ok' if ok else 'failed', why, 0.0, None))
    # ---- C08: encode(decode(p)) == p for every non-invalid pattern --------------------------------
    S = dfvc_sym(P)
    S.decls.append('(declare-const p Int)')
    S.asserts.append('(<= %d p)' % lo)
    S.asserts.append('(<= p %d)' % hi)
    if P['inv_dec'] is not None:
        S.asserts.append('(not (= p %d))' % P['inv_dec'])
    d = sym_decode(S, f, P, '(to_real p)')
    k, ok, _ = sym_encode(S, f, P, d)
    neg = '(or (not %s) (not (= %s p)))' % (ok, k)
    st, out, dt = run_z3(S.script(neg), workdir, 'c08_' + f.name)
    res.append(('lossless', {'C08', 'C01'}, 'ok' if st == 'unsat' else ('failed' if st == 'sat' else 'tool'), out[:1500], dt, out if st == 'sat' else None))
    # decoded value finite: magnitude bound (no overflow) -- follows from the side conditions; record as obligation
    # ---- C11: nearest grid point ------------------------------------------------------------------
    vlo, vhi = lo, hi
    if P['inv_dec'] is not None:
        if P['inv_dec'] == hi:
            vhi = hi - 1
        elif P['inv_dec'] == lo:
            vlo = lo + 1
    R = P['Renc'] if P['Renc'] is not None else Fraction(1)
    B = P['Benc'] if P['Benc'] is not None else Fraction(0)
    Rd = P['Rdec'] if P['Rdec'] is not None else Fraction(1)
    Bd = P['Bdec'] if P['Bdec'] is not None else Fraction(0)
    S = dfvc_sym(P)
    S.decls.append('(declare-const x Real)')
    gmin, gmax = vlo * R + B, vhi * R + B
    S.asserts.append('(<= %s x)' % q(gmin))
    S.asserts.append('(<= x %s)' % q(gmax))
    k, ok, _ = sym_encode(S, f, P, 'x')
    # (a) accepted, in range, not the invalid marker
    neg_a = '(or (not %s) (< %s %d) (> %s %d)%s)' % (ok, k, vlo, k, vhi, '' if P['inv_dec'] is None else ' (= %s %d)' % (k, P['inv_dec']))
    st, out, dt = run_z3(S.script(neg_a), workdir, 'c11a_' + f.name)
    res.append(('in_range_no_wrap', {'C11'}, 'ok' if st == 'unsat' else ('failed' if st == 'sat' else 'tool'), out[:1500], dt, out if st == 'sat' else None))
    # (b) one of the two neighbours:  |k - (x-B)/R| <= 1/2 + slack_k
    u = P['u']
    absx = S.fresh('ax')
    S.asserts.append('(= %s (ite (>= x 0.0) x (- x)))' % absx)
    slack = '(* %s (+ %s %s %s))' % (q(16 * u), absx, q(abs(B)), q(R))
    t = '(* (- x %s) %s)' % (q(B), q(1 / R))
    neg_b = '(let ((t %s) (kr (to_real %s)) (sl (* %s %s))) (or (> (- kr t) (+ 0.5 sl)) (> (- t kr) (+ 0.5 sl))))' % (t, k, slack, q(1 / R))
    st, out, dt = run_z3(S.script(neg_b), workdir, 'c11b_' + f.name)
    res.append(('nearest_neighbour', {'C11'}, 'ok' if st == 'unsat' else ('failed' if st == 'sat' else 'tool'), out[:1500], dt, out if st == 'sat' else None))
    # (c) decoded value within half a step plus slack
    dec = sym_decode(S, f, P, '(to_real %s)' % k)
    neg_c = '(let ((d %s) (bound (+ %s %s))) (or (> (- d x) bound) (> (- x d) bound)))' % (dec, q(Rd / 2), slack)
    st, out, dt = run_z3(S.script(neg_c), workdir, 'c11c_' + f.name)
    res.append(('half_step_error', {'C11'}, 'ok' if st == 'unsat' else ('failed' if st == 'sat' else 'tool'), out[:1500], dt, out if st == 'sat' else None))
    # (d) monotone: structural (every operation is monotone non-decreasing: subtract constant, multiply by 1/R > 0,
    #     add +-0.5 by sign, round-to-nearest, truncate), given R > 0 which is a side condition above.
    mono = (P['Renc'] is None or P['Renc'] > 0) and (P['Rdec'] is None or P['Rdec'] > 0) and (P['Renc'] == P['Rdec']) and (P['Benc'] == P['Bdec']) and (P['Benc'] == P['Benc2'])
    res.append(('monotone_and_same_grid', {'C11', 'C08'}, 'ok' if mono else 'failed',
                'encode grid (R=%s,B=%s / subtracts %s) vs decode grid (R=%s,B=%s)' % (P['Renc'], P['Benc'], P['Benc2'], P['Rdec'], P['Bdec']), 0.0, None))
    return res


def dfvc_sym(P):
    S = Sym(P['u'])
    for k in ('Benc', 'Bdec', 'Benc2'):
        if P[k] is not None and P[k] not in S.consts:
            S.consts.append(P[k])
    return S


def run(tier, seed):
    from units import UnitResult
    from concurrent.futures import ThreadPoolExecutor
    ur = UnitResult('dfvc', 'z3-lira(standard-model)')
    fs, _ = dfinv.fields()
    fl = [f for f in fs if f.is_float] + dfinv.bias_fields()   # + the three hand-written bias quantisers (C11 anchors, C16)
    work = os.path.join(common.scratch(), 'dfvc')
    os.makedirs(work, exist_ok=True)
    t0 = time.time()

    def one(f):
        try:
            return f, field_obligations(f, work), None
        except ToolLimit as e:
            return f, [], str(e)
    with ThreadPoolExecutor(max_workers=16) as ex:
        results = list(ex.map(one, fl))
    for f, obs, err in results:
        if err:
            ur.tool_errors.append('dfvc: ' + err)
            continue
        for (suffix, props, st, detail, dt, model) in obs:
            if getattr(f, 'hand_written', False):
                props = set(props) | {'C16'}
            ob = Oblig('df.%s.%s' % (f.name, suffix), props, 'generated-vc', 'df::dfs::%s::{encode,decode}' % f.name, suffix)
            ur.solver_s += dt
            if st == 'failed':
                ob.failed = ['z3: sat (the negated obligation has a model)\n' + detail]
                ob.counterexample = {'z3_model': model, 'field': f.name} if model else None
            elif st == 'tool':
                ur.tool_errors.append('dfvc %s.%s: z3 answered %s' % (f.name, suffix, detail[:200]))
            ur.obligs.append(ob)
        ur.functions.append({'name': 'df::dfs::%s::{encode,decode}' % f.name, 'lo': 0, 'hi': 0, 'origin': 'expanded(all_msgs,std)', 'path': 'df::dfs::' + f.name,
                             'n_requires': 0, 'n_ensures': len(obs), 'n_loops': 0})
    ur.wall_s = time.time() - t0
    ur.cmds.append('z3 -T:60 <scratch>/dfvc/<obligation>.smt2   (one script per obligation, QF_LIRA)')
    ur.assumptions += ['IEEE-754 standard model for + - * / on f32/f64 (|relative error| <= 2^-24 / 2^-53, rounding monotone and exact on the representable constants 0 and the bias, no underflow/overflow: side conditions R in 2^-100..2^100 checked); machine floats treated as reals with bounded relative error',
                       'division by the constant R modelled as one correctly rounded operation on the exact quotient',
                       'float->int cast = truncation toward zero; int->float exact below 2^mantissa (checked per field)']
    ur.trusted += ['z3 4.8.12 (QF_LIRA)', 'dfinv shape parser of the expanded df! bodies (rejects any other shape with exit 2)',
                   'L0 put/parse contracts (unit l0bits) link the carrier integer to the wire pattern']
    return ur
