"""Shared plumbing: scratch dirs, macro expansion of the current /repo tree, evidence, exit codes."""
import atexit
import json
import os
import shutil
import subprocess
import sys
import tempfile
import time

VERIF = os.path.dirname(os.path.dirname(os.path.abspath(__file__)))
REPO = os.environ.get('RTCM_REPO', '/repo')
sys.path.insert(0, os.path.join(VERIF, 'tools'))

from rsx import Source, ToolLimit  # noqa: E402

_scratch = None


def scratch():
    """One scratch directory per process, outside /repo and /verif, removed at exit."""
    global _scratch
    if _scratch is None:
        base = os.environ.get('RTCM_VERIF_SCRATCH_BASE', tempfile.gettempdir())
        _scratch = tempfile.mkdtemp(prefix='rtcm-verif-', dir=base)
        if not os.environ.get('RTCM_VERIF_KEEP'):
            atexit.register(lambda: shutil.rmtree(_scratch, ignore_errors=True))
    return _scratch


def offline_env(extra=None):
    env = dict(os.environ)
    env['CARGO_NET_OFFLINE'] = 'true'
    env.pop('RUSTFLAGS', None) if extra is None or 'RUSTFLAGS' not in (extra or {}) else None
    if extra:
        env.update(extra)
    return env


_expanded = None


def expanded_source():
    """-Zunpretty=expanded text of the *current* working tree (features all_msgs,std; no test_gen/serde)."""
    global _expanded
    if _expanded is not None:
        return _expanded
    td = os.path.join(scratch(), 'expand-target')
    t0 = time.time()
    p = subprocess.run(['cargo', '+nightly', 'rustc', '--offline', '--lib', '--no-default-features',
                        '--features', 'all_msgs,std', '--target-dir', td, '--', '-Zunpretty=expanded'],
                       cwd=REPO, capture_output=True, text=True, env=offline_env())
    if p.returncode != 0:
        raise ToolLimit('macro expansion of /repo failed (does the tree compile?):\n' + p.stderr[-3000:])
    shutil.rmtree(td, ignore_errors=True)
    _expanded = Source(p.stdout, 'expanded(all_msgs,std)')
    _expanded.wall = time.time() - t0
    return _expanded


_file_sources = {}


def file_source(rel):
    if rel not in _file_sources:
        path = os.path.join(REPO, rel)
        if not os.path.exists(path):
            raise ToolLimit('source file missing: ' + rel)
        _file_sources[rel] = Source(open(path).read(), rel)
    return _file_sources[rel]


class SourceMap(dict):
    """label -> Source, lazily: 'exp' is the expanded crate, anything else a path relative to /repo."""

    def __contains__(self, k):
        return True

    def __getitem__(self, k):
        if k == 'exp':
            return expanded_source()
        return file_source(k)


def repo_head():
    try:
        h = subprocess.run(['git', '-C', REPO, 'rev-parse', 'HEAD'], capture_output=True, text=True).stdout.strip()
        d = subprocess.run(['git', '-C', REPO, 'status', '--porcelain'], capture_output=True, text=True).stdout.strip()
        return h + ('+dirty' if d else '')
    except Exception:
        return 'unknown'


def write_json(path, obj):
    os.makedirs(os.path.dirname(path), exist_ok=True)
    tmp = path + '.tmp'
    with open(tmp, 'w') as f:
        json.dump(obj, f, indent=1, sort_keys=False)
        f.write('\n')
    os.replace(tmp, path)


def load_known():
    p = os.path.join(VERIF, 'known_findings.json')
    if os.path.exists(p):
        return json.load(open(p))
    return {'findings': [], 'fixed': []}
