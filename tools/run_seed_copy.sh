#!/bin/bash
# usage: run_seed_copy.sh <seed-id>...   Runs the property's quick check against a mutated *copy* of /repo (a scratch worktree with the
# seeded patch applied, selected through RTCM_REPO), never against /repo itself; evidence of these runs goes to a scratch dir.
cd "$(dirname "$0")/.."
for id in "$@"; do
  wt=/tmp/seedrun-$id
  git -C /repo worktree remove --force $wt 2>/dev/null
  git -C /repo worktree add -q --detach $wt HEAD || exit 2
  if ! git -C $wt apply /verif/seeded/$id/patch.diff; then echo "| $id | patch does not apply | |"; git -C /repo worktree remove --force $wt; continue; fi
  ev=$(mktemp -d /tmp/rtcm-seed-ev-XXXX)
  s=$(date +%s)
  pid=$(echo $id | sed "s/[a-z]*$//")
  out=$(RTCM_REPO=$wt RTCM_VERIF_EVIDENCE_DIR=$ev ./check $pid --tier quick 2>&1)
  rc=$?
  line=$(echo "$out" | grep -E "^VIOLATION|^OK|^UNDECIDED|not claimed" | head -1 | cut -c1-260)
  echo "| $id | rc=$rc $(( $(date +%s) - s ))s | \`$(echo "$line" | sed 's/.*obligations=//' | cut -c1-170)\` |"
  echo "$out" > /tmp/seedrun-$id.log
  rm -rf $ev; git -C /repo worktree remove --force $wt
done
