"""Unit features (C19): every message feature selectable on its own, with or without std.

Not a pre/postcondition of one function: the obligation set is re-established per configuration
 (a) the crate type-checks without `std` under the configuration (cargo check --no-default-features);
 (b) the expanded dispatch (from_message_frame / number / build_message) of that configuration names exactly its own number;
 (c) the expanded text of the selected message's module (and of every data-field module present) is identical to the text in
     the all_msgs expansion, which is the text the other units verify - so a single-feature build decodes type n exactly as the
     full build does."""
import os
import re
import subprocess
import time

import common
import unit_msgl3
from rsx import Source, ToolLimit
from vgen import Oblig, norm_ws


def expand(features, target):
    cmd = ['cargo', '+nightly', 'rustc', '--offline', '--lib', '--no-default-features']
    if features:
        cmd += ['--features', features]
    cmd += ['--target-dir', target, '--', '-Zunpretty=expanded']
    p = subprocess.run(cmd, cwd=common.REPO, capture_output=True, text=True, env=common.offline_env())
    return p.returncode, p.stdout, p.stderr


def check(features, target):
    cmd = ['cargo', 'check', '--offline', '--lib', '--no-default-features']
    if features:
        cmd += ['--features', features]
    cmd += ['--target-dir', target]
    p = subprocess.run(cmd, cwd=common.REPO, capture_output=True, text=True, env=common.offline_env())
    return p.returncode, p.stderr


def mod_texts(src, path):
    """normalised text of every fn/struct/type item inside module `path` (recursively)"""
    out = {}
    def walk(it, prefix):
        for c in it.children:
            if c.kind == 'mod':
                walk(c, prefix + c.name + '::')
            elif c.kind in ('fn', 'struct', 'type', 'const', 'enum'):
                out[prefix + c.kind + ':' + c.name] = norm_ws(src.text[c.start:c.end])
    walk(src.find(path), '')
    return out


def run(tier, seed):
    from units import UnitResult
    ur = UnitResult('features', 'rustc-typecheck+expansion-diff')
    t0 = time.time()
    nums, declared = unit_msgl3.cargo_features()
    full = common.expanded_source()
    target = os.path.join(common.scratch(), 'feat-target')
    configs = [None] + nums
    P = {'C19'}
    full_df = mod_texts(full, ['df', 'dfs'])
    for n in configs:
        feat = '' if n is None else 'msg%d' % n
        tag = 'none' if n is None else str(n)
        rc, err = check(feat, target)
        ob = Oblig('cfg.%s.builds_without_std' % tag, P, 'typecheck', 'crate(--no-default-features%s)' % (' --features ' + feat if feat else ''), 'cargo check, no std')
        if rc != 0:
            errs = [l for l in err.split('\n') if l.startswith('error')]
            ob.failed = ['does not build without std: ' + '; '.join(errs[:4]) + '\n' + err[-1500:]]
            ob.counterexample = {'kind': 'config', 'input_hex': None, 'features': feat, 'cmd': 'cargo check --offline --lib --no-default-features' + (' --features ' + feat if feat else '')}
        ur.obligs.append(ob)
        if rc != 0:
            continue
        rc2, out, err2 = expand(feat, target)
        if rc2 != 0:
            ur.tool_errors.append('features: expansion of configuration %s failed: %s' % (tag, err2[-500:]))
            continue
        src = Source(out, 'expanded(%s)' % (feat or 'no features'))
        fm = src.text[src.find(['msg', 'message', 'impl:Message', 'from_message_frame']).start:src.find(['msg', 'message', 'impl:Message', 'from_message_frame']).end]
        arms = sorted(int(x) for x in re.findall(r'(\d+)\s*=>\s*if let Ok\(value\)\s*=\s*msg\d+::decode', fm))
        nm = src.find(['msg', 'message', 'impl:Message', 'number'])
        narms = sorted(int(x) for x in re.findall(r'Some\((\d+)\)', src.text[nm.start:nm.end]))
        bm = src.find(['msg', 'message', 'impl:MessageBuilder', 'build_message'])
        barms = sorted(int(x) for x in re.findall(r'msg(\d+)::encode\(&mut asm', src.text[bm.start:bm.end]))
        want = [] if n is None else [n]
        ob = Oblig('cfg.%s.dispatch_names_only_its_own_number' % tag, P, 'expansion', 'Message::{from_message_frame, number}, MessageBuilder::build_message', '')
        if arms != want or narms != want or barms != want:
            ob.failed = ['configuration %s: decode arms %s, number() arms %s, encode arms %s; expected %s' % (tag, arms, narms, barms, want)]
        ur.obligs.append(ob)
        if n is not None:
            ob = Oblig('cfg.%s.decoder_text_identical_to_full_build' % tag, P, 'expansion', 'msg::msg%d (all items) and df::dfs::*' % n, '')
            try:
                a = mod_texts(src, ['msg', 'msg%d' % n])
                b = mod_texts(full, ['msg', 'msg%d' % n])
                diffs = [k for k in b if a.get(k) != b[k]] + [k for k in a if k not in b]
                dfa = mod_texts(src, ['df', 'dfs'])
                diffs += ['df::dfs::' + k for k in dfa if full_df.get(k) != dfa[k]]
                if diffs:
                    ob.failed = ['items differ between the single-feature and the full expansion: %s' % diffs[:6]]
            except ToolLimit as e:
                ob.failed = ['module msg::msg%d missing in the single-feature expansion: %s' % (n, e)]
            ur.obligs.append(ob)
    ur.wall_s = time.time() - t0
    ur.cmds.append('cargo check --offline --lib --no-default-features [--features msgN]  and  cargo +nightly rustc ... -- -Zunpretty=expanded   for the empty selection and each of the %d message features' % len(nums))
    ur.assumptions.append('serde x feature combinations are not swept; a configuration that type-checks for x86_64 without `std` is taken to build without the standard library on no_std targets')
    ur.trusted.append('rustc type checker and macro expander (nightly for the expansion, stable for cargo check)')
    ur.functions.append({'name': 'crate configuration sweep (%d configurations)' % len(configs), 'lo': 0, 'hi': 0, 'origin': 'Cargo.toml + src/', 'path': '', 'n_requires': 0, 'n_ensures': 3, 'n_loops': 0})
    return ur
