"""Unit l2 (C15, C02, C09, C01 at L2): Verus on the macro-expanded encode/decode of every message fragment.

The module tree of the expansion is reproduced (so the `use` lines of the real code resolve unchanged);
leaf data fields and the bit codec appear as external_body signatures with the contracts proved by
engines K/S; every composite fragment's real encode/decode text is verified against
  * panic-freedom (push capacity, arithmetic, indexing, callee preconditions),
  * a ghost bit log:  encode appends enc(v);  decode Ok(v) consumed exactly enc(v)  (the decoder inverts
    the encoder, field by field, list by list), where enc() is generated from the *encode* body,
  * the list obligations of C15 (count vs capacity vs length).
Fragments whose template is not reached (MSM, bias lists, 1029 text) are external with a 'poison' ghost
flag, which makes the bit-log claim of every message containing them vacuous - and reported as such."""
import os
import re

import common
import dfinv
import vgen
import unit_l2_msm
import unit_l2_rows
import unit_l2_bias
from vgen import FnSpec, norm_ws, strip_attrs_and_docs
from rsx import ToolLimit

PROPS_ENC = {'C09', 'C01', 'C15'}
PROPS_DEC = {'C02', 'C01', 'C15'}

UNSIGNED = {'U8': ('u8', 8), 'U16': ('u16', 16), 'U32': ('u32', 32), 'U64': ('u64', 64)}
SIGNED_PUT = '''            #[verifier::external_body]
            pub fn put_I16(&mut self, value: i16, len: usize) -> (r: Result<(), RtcmError>)
                requires 1 <= len <= 16, old(self).cap() <= 0x100_0000_0000,
                ensures
                    final(self).cap() == old(self).cap(), final(self).poison() == old(self).poison(),
                    (r is Err) == (old(self).cap() < old(self).bits().len() + len),
                    r is Err ==> r->Err_0 is BufferOverflow && final(self).bits() == old(self).bits(),
                    r is Ok ==> final(self).bits() == old(self).bits() + crate::sbits(value as int, len as nat),
            { unimplemented!() }'''

SIGNED_PARSE = '''            #[verifier::external_body]
            pub fn parse_I16(&mut self, len: usize) -> (r: Result<i16, RtcmError>)
                requires 1 <= len <= 16,
                ensures
                    (r is Err) == (old(self).rest().len() < len),
                    r is Err ==> r->Err_0 is BufferOverflow && final(self).rest() == old(self).rest() && final(self).nz() == old(self).nz(),
                    r is Ok ==> final(self).rest() == old(self).rest().subrange(len as int, old(self).rest().len() as int)
                        && r->Ok_0 == crate::sval(old(self).rest().subrange(0, len as int)),
            { unimplemented!() }'''

PRELUDE2 = '''
pub open spec fn pow2(n: nat) -> int decreases n { if n == 0 { 1 } else { 2 * pow2((n - 1) as nat) } }
// the ghost step used after every child decode: the parser's remaining bits are a suffix of the initial ones
pub proof fn lemma_consume(s0: Seq<bool>, k: int, m: int)
    requires 0 <= k, 0 <= m, k + m <= s0.len(),
    ensures
        s0.subrange(k, s0.len() as int).subrange(0, m) == s0.subrange(k, k + m),
        s0.subrange(k, s0.len() as int).subrange(m, s0.len() - k) == s0.subrange(k + m, s0.len() as int),
        s0.subrange(0, k) + s0.subrange(k, k + m) == s0.subrange(0, k + m),
        s0.subrange(k, s0.len() as int).len() == s0.len() - k,
{
    assert(s0.subrange(k, s0.len() as int).subrange(0, m) =~= s0.subrange(k, k + m));
    assert(s0.subrange(k, s0.len() as int).subrange(m, s0.len() - k) =~= s0.subrange(k + m, s0.len() as int));
    assert(s0.subrange(0, k) + s0.subrange(k, k + m) =~= s0.subrange(0, k + m));
}
// float operations that cannot panic, abstracted (Verus has no float arithmetic)
#[verifier::external_body]
pub fn verif_f32_scale(v: i16, k: f32) -> (r: f32) ensures r == f32_scale_spec(v, k), { unimplemented!() }
pub uninterp spec fn f32_scale_spec(v: i16, k: f32) -> f32;
pub uninterp spec fn i16_to_f32_spec(v: i16) -> f32;
pub uninterp spec fn f32_mul_spec(a: f32, k: f32) -> f32;
#[verifier::external_body]
pub fn verif_i16_to_f32(v: i16) -> (r: f32) ensures r == i16_to_f32_spec(v), { unimplemented!() }
#[verifier::external_body]
pub fn verif_f32_mul(a: f32, k: f32) -> (r: f32) ensures r == f32_mul_spec(a, k), { unimplemented!() }
// the value a signed carrier reads from a field is a function of the field's bits (deterministic reader; unit l0bits proves which one)
pub uninterp spec fn sval(s: Seq<bool>) -> i16;
// unsigned value of a bit string, most significant bit first: the inverse of bits_of_int
pub open spec fn uval(s: Seq<bool>) -> int decreases s.len() {
    if s.len() == 0 { 0 } else { 2 * uval(s.drop_last()) + (if s.last() { 1int } else { 0int }) }
}
pub proof fn lemma_uval_bits(v: int, n: nat)
    requires 0 <= v < pow2(n),
    ensures uval(bits_of_int(v, n)) == v,
    decreases n
{
    if n > 0 {
        let b = bits_of_int(v, n);
        assert(b.drop_last() =~= bits_of_int(v / 2, (n - 1) as nat));
        assert(b.last() == (v % 2 == 1));
        lemma_uval_bits(v / 2, (n - 1) as nat);
    }
}
// the hand-written bias quantiser (divide by the resolution, add +-0.5 by sign, cast to i16) as an abstract function; its
// arithmetic is decided by engine S (unit dfvc, fields df_msg10xx_biases__bias_m)
pub uninterp spec fn bias_q(x: f32, r: f32) -> i16;
#[verifier::external_body]
pub fn verif_bias_quant(x: f32, r: f32) -> (q: i16) ensures q == bias_q(x, r), { unimplemented!() }
// the len-bit two's complement field written for a signed carrier value (unit l0bits: put.field_bits_msb_first on I16)
pub uninterp spec fn sbits(v: int, len: nat) -> Seq<bool>;
pub axiom fn axiom_sbits_len(v: int, len: nat) ensures sbits(v, len).len() == len;   // put moves the cursor by exactly len (unit l0bits: put.cursor_advances)
pub proof fn lemma_seq_assoc(a: Seq<bool>, b: Seq<bool>, c: Seq<bool>)
    ensures (a + b) + c == a + (b + c),
{
    assert((a + b) + c =~= a + (b + c));
}
pub proof fn lemma_bits_len(v: int, len: nat)
    ensures bits_of_int(v, len).len() == len,
    decreases len
{
    if len > 0 { lemma_bits_len(v / 2, (len - 1) as nat); }
}
pub proof fn lemma_pow2_64_32() ensures pow2(64) == 0x1_0000_0000_0000_0000, pow2(32) == 0x1_0000_0000 { assert(pow2(64) == 0x1_0000_0000_0000_0000) by(compute); assert(pow2(32) == 0x1_0000_0000) by(compute); }
pub proof fn lemma_bits_inj(a: int, b: int, len: nat)
    requires 0 <= a < pow2(len), 0 <= b < pow2(len), bits_of_int(a, len) == bits_of_int(b, len),
    ensures a == b,
    decreases len
{
    if len > 0 {
        let sa = bits_of_int(a, len); let sb = bits_of_int(b, len);
        assert(sa.last() == sb.last());
        assert(sa.drop_last() =~= bits_of_int(a / 2, (len - 1) as nat));
        assert(sb.drop_last() =~= bits_of_int(b / 2, (len - 1) as nat));
        lemma_bits_inj(a / 2, b / 2, (len - 1) as nat);
    }
}

pub open spec fn bytes_bits(s: Seq<u8>) -> Seq<bool>
    decreases s.len()
{
    if s.len() == 0 { Seq::<bool>::empty() } else { bytes_bits(s.drop_last()) + bits_of_int(s.last() as int, 8) }
}
pub proof fn lemma_bytes_bits_push(s: Seq<u8>, x: u8)
    ensures bytes_bits(s.push(x)) == bytes_bits(s) + bits_of_int(x as int, 8),
{
    assert(s.push(x).drop_last() =~= s);
}

pub mod df {
    pub mod bit_value {
        pub struct U8; pub struct U16; pub struct U32; pub struct U64;
        pub struct I8; pub struct I16; pub struct I32; pub struct I64;
        pub struct SM8; pub struct SM16; pub struct SM32;
    }
    pub mod assembler {
        use vstd::prelude::*;
        use crate::rtcm_error::RtcmError;
        use crate::bits_of_int;
        // L0: opaque here; contract = what unit l0bits (Kani) proves on the compiled Assembler::put.
        #[verifier::external_body]
        pub struct Assembler<'a> { data: &'a mut [u8], offset: usize }
        impl<'a> Assembler<'a> {
            pub uninterp spec fn bits(&self) -> Seq<bool>;    // the bits written so far (cursor == bits().len())
            pub uninterp spec fn cap(&self) -> nat;            // capacity of the buffer in bits
            pub uninterp spec fn poison(&self) -> bool;        // a fragment outside this unit wrote through it
            #[verifier::external_body]
            pub fn offset(&self) -> (r: usize)
                ensures r == self.bits().len(),
            { unimplemented!() }
@PUTS@
        }
    }
    pub mod parser {
        use vstd::prelude::*;
        use crate::rtcm_error::RtcmError;
        use crate::{bits_of_int, pow2};
        #[verifier::external_body]
        pub struct Parser<'a> { data: &'a [u8], offset: usize }
        impl<'a> Parser<'a> {
            pub uninterp spec fn rest(&self) -> Seq<bool>;    // the bits not yet consumed
            pub uninterp spec fn nz(&self) -> bool;            // consumed a pattern that is not its own re-encoding
                                                                // (sign-magnitude -0, NUL in a descriptor) or an uncovered fragment
@PARSES@
        }
    }
    pub mod dfs {
@LEAVES@
'''


def put_stub(c):
    vt, bits = UNSIGNED[c]
    return '''            #[verifier::external_body]
            pub fn put_%(c)s(&mut self, value: %(vt)s, len: usize) -> (r: Result<(), RtcmError>)
                requires 1 <= len <= %(bits)d, old(self).cap() <= 0x100_0000_0000,
                ensures
                    final(self).cap() == old(self).cap(), final(self).poison() == old(self).poison(),
                    (r is Err) == (old(self).cap() < old(self).bits().len() + len),
                    r is Err ==> r->Err_0 is BufferOverflow && final(self).bits() == old(self).bits(),
                    r is Ok ==> final(self).bits() == old(self).bits() + bits_of_int(value as int, len as nat),
            { unimplemented!() }''' % {'c': c, 'vt': vt, 'bits': bits}


def parse_stub(c):
    vt, bits = UNSIGNED[c]
    nzc = 'final(self).nz() == (old(self).nz() || (len == 8 && r->Ok_0 == 0))' if c == 'U8' else 'final(self).nz() == old(self).nz()'
    return '''            #[verifier::external_body]
            pub fn parse_%(c)s(&mut self, len: usize) -> (r: Result<%(vt)s, RtcmError>)
                requires 1 <= len <= %(bits)d,
                ensures
                    (r is Err) == (old(self).rest().len() < len),
                    r is Err ==> r->Err_0 is BufferOverflow && final(self).rest() == old(self).rest() && final(self).nz() == old(self).nz(),
                    r is Ok ==> final(self).rest() == old(self).rest().subrange(len as int, old(self).rest().len() as int)
                        && %(nzc)s
                        && bits_of_int(r->Ok_0 as int, len as nat) == old(self).rest().subrange(0, len as int)
                        && (r->Ok_0 as int) < pow2(len as nat),
            { unimplemented!() }''' % {'c': c, 'vt': vt, 'bits': bits, 'nzc': nzc}


def leaf_stub(f):
    sm = 'true' if f.kind == 'sm' else 'false'
    return '''        pub mod %(n)s {
            use vstd::prelude::*;
            use crate::df::{assembler::Assembler, parser::Parser};
            use crate::rtcm_error::RtcmError;
            pub type DataType = %(dt)s;
            pub const W: usize = %(w)d;
            // the field's quantiser as an abstract function: Some(bits) or None (= OutOfRange). Engines K/S prove on the
            // real code that encode is this function and that enc(decode(p)) == p (C08).
            pub uninterp spec fn enc(v: DataType) -> Option<Seq<bool>>;
            pub open spec fn negzero(p: Seq<bool>) -> bool { %(sm)s && p.len() == %(w)d && p[0] && forall|i: int| 1 <= i < %(w)d ==> !p[i] }
            #[verifier::external_body]
            pub fn encode(asm: &mut Assembler, value: &DataType) -> (r: Result<(), RtcmError>)
                requires old(asm).cap() <= 0x100_0000_0000,
                ensures
                    final(asm).cap() == old(asm).cap(), final(asm).poison() == old(asm).poison(),
                    r is Ok ==> enc(*value) is Some && enc(*value)->Some_0.len() == %(w)d
                        && final(asm).bits() == old(asm).bits() + enc(*value)->Some_0,
                    r is Err ==> final(asm).bits() == old(asm).bits() && (r->Err_0 is BufferOverflow || r->Err_0 is OutOfRange),
                    enc(*value) is Some && old(asm).bits().len() + %(w)d <= old(asm).cap() ==> r is Ok,
            { unimplemented!() }
            #[verifier::external_body]
            pub fn decode(par: &mut Parser) -> (r: Result<DataType, RtcmError>)
                ensures
                    (r is Err) == (old(par).rest().len() < %(w)d),
                    r is Err ==> r->Err_0 is BufferOverflow && final(par).rest() == old(par).rest() && final(par).nz() == old(par).nz(),
                    r is Ok ==> final(par).rest() == old(par).rest().subrange(%(w)d, old(par).rest().len() as int)
                        && final(par).nz() == (old(par).nz() || negzero(old(par).rest().subrange(0, %(w)d)))
                        && (!negzero(old(par).rest().subrange(0, %(w)d)) ==> enc(r->Ok_0) == Some(old(par).rest().subrange(0, %(w)d))),
            { unimplemented!() }
        }''' % {'n': f.name, 'dt': f.datatype, 'w': f.len, 'sm': sm}


def opaque_frag_stub(name, datatype_text, dec_extra_args=''):
    """A fragment this unit does not reach: external, sets the poison / nz flags."""
    return '''            pub uninterp spec fn enc(v: DataType) -> Option<Seq<bool>>;   // fragment not reached by this unit
            #[verifier::external_body]
            pub fn encode(asm: &mut Assembler, value: &DataType) -> (r: Result<(), RtcmError>)
                requires old(asm).cap() <= 0x100_0000_0000,
                ensures final(asm).cap() == old(asm).cap(), final(asm).poison(),
                    final(asm).bits().len() >= old(asm).bits().len(), final(asm).bits().subrange(0, old(asm).bits().len() as int) == old(asm).bits(),   // L0: append-only
            { unimplemented!() }
            #[verifier::external_body]
            pub fn decode(par: &mut Parser%s) -> (r: Result<DataType, RtcmError>)
                ensures final(par).nz(),
            { unimplemented!() }''' % dec_extra_args


# ---------------------------------------------------------------------------------------------
# shape classification of composite modules
class Frag:
    pass


RE_ENC_FIELD = re.compile(r'^(\w+)::encode\(asm, &value\.(\w+)\)\?;$')
RE_ENC_LEN = re.compile(r'^(\w+)::encode\(asm, &value\.(\w+)\.len\(\)\)\?;$')
RE_DEC_FIELD = re.compile(r'^let (\w+) = (\w+)::decode\(par\)\?;$')
RE_DEC_LEN = re.compile(r'^let vec_len: usize = (\w+)::decode\(par\)\?;$')
RE_DEC_VEC = re.compile(r'^let (\w+) = (\w+)::decode\(par, vec_len\)\?;$')


def split_stmts(body):
    """split a normalised straight-line body into statements at top-level ';' """
    m = vgen.mask_noncode(body)
    out, depth, last = [], 0, 0
    for i, ch in enumerate(m):
        if ch in '([{':
            depth += 1
        elif ch in ')]}':
            depth -= 1
        elif ch == ';' and depth == 0:
            out.append(body[last:i + 1].strip())
            last = i + 1
    tail = body[last:].strip()
    if tail:
        out.append(tail)
    return out


def classify(exp, mod):
    """returns Frag with kind in record | vec | vec_len | grid | str_len | other"""
    fr = Frag()
    fr.name = mod.name
    fr.mod = mod
    enc = dec = None
    fr.struct = None
    fr.type_alias = None
    for c in mod.children:
        if c.kind == 'fn' and c.name == 'encode':
            enc = c
        elif c.kind == 'fn' and c.name == 'decode':
            dec = c
        elif c.kind == 'struct':
            fr.struct = c
        elif c.kind == 'type' and c.name == 'DataType':
            fr.type_alias = c
    if enc is None or dec is None:
        return None
    fr.enc_item, fr.dec_item = enc, dec
    eb = norm_ws(strip_attrs_and_docs(exp.text[enc.body_open + 1:enc.end - 1]))
    db = norm_ws(strip_attrs_and_docs(exp.text[dec.body_open + 1:dec.end - 1]))
    fr.enc_body, fr.dec_body = eb, db
    fr.dec_sig = norm_ws(exp.text[dec.start:dec.body_open])
    fr.kind = 'other'
    # record (msg!, msg_len_middle!)
    es = split_stmts(eb)
    ds = split_stmts(db)
    if es and es[-1] == 'Ok(())' and all(RE_ENC_FIELD.match(s) or RE_ENC_LEN.match(s) for s in es[:-1]) and len(es) > 1 and fr.struct is not None:
        steps = []
        for s in es[:-1]:
            m = RE_ENC_FIELD.match(s)
            if m:
                steps.append(('field', m.group(1), m.group(2), s))
            else:
                m = RE_ENC_LEN.match(s)
                steps.append(('len', m.group(1), m.group(2), s))
        dsteps = []
        ok = True
        for s in ds[:-1]:
            m = RE_DEC_FIELD.match(s)
            if m:
                dsteps.append(('field', m.group(2), m.group(1), s))
                continue
            m = RE_DEC_LEN.match(s)
            if m:
                dsteps.append(('len', m.group(1), 'vec_len', s))
                continue
            m = RE_DEC_VEC.match(s)
            if m:
                dsteps.append(('vec', m.group(2), m.group(1), s))
                continue
            ok = False
        if ok and re.match(r'^Ok\(\w+ \{.*\}\)$', ds[-1]):
            if FLOAT_LEAVES is not None and all(st[1] in FLOAT_LEAVES for st in steps):
                fr.kind = 'other'
                fr.why = 'verus-quirk: struct with only bare float fields (field typing axioms missing)'
                return fr
            fr.kind = 'record'
            fr.enc_steps, fr.dec_steps = steps, dsteps
            return fr
    # vec (len passed in)
    m = re.match(r'^for v in value\.iter\(\) \{ (\w+)::encode\(asm, v\)\?; \} Ok\(\(\)\)$', eb)
    # the capacity in the contract is the capacity of the list TYPE (DataVec<_, CAP>), not whatever the decoder compares with; the
    # check itself may be missing or altered - then Verus decides (over_capacity_rejected, push precondition), not the shape matcher
    alias_cap = None
    if fr.type_alias is not None:
        ma = re.search(r'DataVec<\s*[\w:]+\s*,\s*(\w+)\s*>', exp.text[fr.type_alias.start:fr.type_alias.end])
        alias_cap = ma.group(1) if ma else None
    md = re.match(r'^(?:if len > (\w+) \{ return Err\(RtcmError::CapacityExceeded\); \} )?let mut value = DataVec::new\(\); for _ in 0\.\.len \{ let v = (\w+)::decode\(par\)\?; value\.push\(v\); \} Ok\(value\)$', db)
    if m and md and 'len: usize' in fr.dec_sig and alias_cap:
        fr.kind, fr.elem, fr.cap = 'vec', m.group(1), alias_cap
        return fr
    m = re.match(r'^let len = value\.len\(\) as u16; asm\.put::<U16>\(len, (\d+)\)\?; for v in value\.iter\(\) \{ (\w+)::encode\(asm, v\)\?; \} Ok\(\(\)\)$', eb)
    md = re.match(r'^let len = [^;]*?par\.parse::<U16>\((\d+)\)\?[^;]*; (?:if len > (\w+) \{ return Err\(RtcmError::CapacityExceeded\); \} )?let mut value = DataVec::new\(\); for _ in 0\.\.len \{ let v = (\w+)::decode\(par\)\?; value\.push\(v\); \} Ok\(value\)$', db)
    if m and md and alias_cap:
        fr.kind, fr.elem, fr.cap, fr.lb, fr.lb_dec = 'vec_len', m.group(2), alias_cap, int(m.group(1)), int(md.group(1))
        return fr
    m = re.match(r'^for v in value\.iter\(\) \{ (\w+)::encode\(asm, v\)\?; \} Ok\(\(\)\)$', eb)
    md = re.match(r'^let mut value = Grid16P::new\(\); for v in value\.iter_mut\(\) \{ \*v = (\w+)::decode\(par\)\?; \} Ok\(value\)$', db)
    if m and md:
        fr.kind, fr.elem = 'grid', m.group(1)
        return fr
    m = re.match(r'^asm\.put::<U8>\(value\.len\(\) as u8, (\d+)\)\?; for v in value\.iter\(\) \{ asm\.put::<U8>\(\*v, 8\)\?; \} Ok\(\(\)\)$', eb)
    md = re.match(r'^let len = par\.parse::<U8>\((\d+)\)\?; (?:if len as usize > (\w+) \{ return Err\(RtcmError::CapacityExceeded\); \} )?let mut value = Df88591String::new\(\); for _ in 0\.\.len \{ let v = par\.parse::<U8>\(8\)\?; value\.push\(v\); \} Ok\(value\)$', db)
    str_cap = None
    if fr.type_alias is not None:
        ms = re.search(r'Df88591String<\s*(\w+)\s*>', exp.text[fr.type_alias.start:fr.type_alias.end])
        str_cap = ms.group(1) if ms else None
    if m and md and str_cap:
        fr.kind, fr.cap, fr.lb, fr.lb_dec = 'str_len', str_cap, int(m.group(1)), int(md.group(1))
        return fr
    return fr


FLOAT_LEAVES = None

R6 = [(r'\b(asm|par)\.(put|parse)::<(\w+)>\(', r'\1.\2_\3(', 'R6 generic L0 call monomorphised: x.put::<IT>(..) -> x.put_IT(..)')]

DEC_POST = '''r is Ok && !final(par).nz() ==> enc(r->Ok_0) is Some && ({
        let b = enc(r->Ok_0)->Some_0;
        &&& b.len() <= old(par).rest().len()
        &&& b == old(par).rest().subrange(0, b.len() as int)
        &&& final(par).rest() == old(par).rest().subrange(b.len() as int, old(par).rest().len() as int)
    })'''
ENC_POST = '''r is Ok && !final(asm).poison() ==> enc(*value) is Some && final(asm).bits() == old(asm).bits() + enc(*value)->Some_0'''


def enc_term(step):
    kind, frag, field = step[0], step[1], step[2]
    if kind == 'len':
        return '%s::enc(v.%s@.len() as usize)' % (frag, field)
    return '%s::enc(v.%s)' % (frag, field)


def emit_record(vf, exp, path, fr, ind):
    pid = fr.name
    terms = [enc_term(s) for s in fr.enc_steps]
    cond = ' && '.join('%s is Some' % t for t in terms)
    summ = ' + '.join('%s->Some_0' % t for t in terms)
    vf.emit(ind + 'pub open spec fn enc(v: DataType) -> Option<Seq<bool>> {\n%s    if %s {\n%s        Some(%s)\n%s    } else { None }\n%s}' % (ind, cond, ind, summ, ind, ind))
    # ---- encode: ghost accumulator, one associativity step per field
    sp = FnSpec(); sp.ret = 'r'; sp.body_props = PROPS_ENC
    sp.attrs = '#[verifier::rlimit(60)]'
    sp.requires = [('l2.%s.encode.pre' % pid, set(), 'old(asm).cap() <= 0x100_0000_0000')]
    sp.ensures = [('l2.%s.encode.frame' % pid, PROPS_ENC, 'final(asm).cap() == old(asm).cap() && (old(asm).poison() ==> final(asm).poison())'),
                  ('l2.%s.encode.appends_enc' % pid, {'C01', 'C15'}, ENC_POST)]
    vt = lambda st: enc_term(st).replace('v.', 'value.')
    first = fr.enc_steps[0]
    sp.inserts.append(('before', first[3], 0, 'let ghost verif_b0 = asm.bits(); let ghost mut verif_acc: Seq<bool> = Seq::<bool>::empty();'))
    for idx, st in enumerate(fr.enc_steps):
        t = vt(st)
        if idx == 0:
            step = 'verif_acc = %s->Some_0;' % t
        else:
            step = 'crate::lemma_seq_assoc(verif_b0, verif_acc, %s->Some_0); verif_acc = verif_acc + %s->Some_0;' % (t, t)
        sp.inserts.append(('after', st[3], 0, 'proof { if !asm.poison() { %s assert(asm.bits() == verif_b0 + verif_acc); } }' % step))
    vgen.emit_fn(vf, exp, path + ['fn:encode'], sp, label='%s::encode' % '::'.join(path[1:]), indent=ind, keep_pub=True)
    # ---- decode: ghost accumulator of consumed bits
    sp = FnSpec(); sp.ret = 'r'; sp.body_props = PROPS_DEC
    sp.attrs = '#[verifier::rlimit(60)]'
    sp.ensures = [('l2.%s.decode.nz_monotone' % pid, PROPS_DEC, 'old(par).nz() ==> final(par).nz()'),
                  ('l2.%s.decode.inverts_encode' % pid, {'C01', 'C15'}, DEC_POST)]
    first = fr.dec_steps[0]
    sp.inserts.append(('before', first[3], 0, 'let ghost verif_s0 = par.rest(); let ghost mut verif_k: int = 0; let ghost mut verif_acc: Seq<bool> = Seq::<bool>::empty();'))
    for idx, st in enumerate(fr.dec_steps):
        kind, frag, var, text = st
        term = '%s::enc(%s)' % (frag, var)
        upd = 'verif_acc = verif_b;' if idx == 0 else 'verif_acc = verif_acc + verif_b;'
        sp.inserts.append(('after', text, 0,
                           'proof { if !par.nz() { let verif_b = %s->Some_0; crate::lemma_consume(verif_s0, verif_k, verif_b.len() as int); '
                           'verif_k = verif_k + verif_b.len(); %s assert(verif_s0.subrange(0, verif_k) == verif_acc); assert(par.rest() == verif_s0.subrange(verif_k, verif_s0.len() as int)); } }'
                           % (term, upd)))
    vgen.emit_fn(vf, exp, path + ['fn:decode'], sp, label='%s::decode' % '::'.join(path[1:]), indent=ind, keep_pub=True)
    # structural agreement of the two field orders (decode order must equal encode order for the claim to mean anything)
    eo = [(s[0] if s[0] != 'len' else 'len', s[1]) for s in fr.enc_steps]
    do = [(('field' if s[0] == 'vec' else s[0]), s[1]) for s in fr.dec_steps]
    return eo == do


ENC_SEQ = '''pub open spec fn enc_seq(s: Seq<%(elem)s::DataType>) -> Option<Seq<bool>>
    decreases s.len()
{
    if s.len() == 0 { Some(Seq::<bool>::empty()) }
    else if enc_seq(s.drop_last()) is Some && %(elem)s::enc(s.last()) is Some { Some(enc_seq(s.drop_last())->Some_0 + %(elem)s::enc(s.last())->Some_0) }
    else { None }
}
pub proof fn lemma_enc_seq_push(s: Seq<%(elem)s::DataType>, x: %(elem)s::DataType)
    ensures enc_seq(s.push(x)) == (if enc_seq(s) is Some && %(elem)s::enc(x) is Some { Some(enc_seq(s)->Some_0 + %(elem)s::enc(x)->Some_0) } else { None::<Seq<bool>> }),
{
    assert(s.push(x).drop_last() =~= s);
}'''

LOOP_ENC_INV = '''    invariant
        verif_sl0@ == value@, verif_k0 <= verif_sl0.len(),
        asm.cap() == old(asm).cap(), asm.cap() <= 0x100_0000_0000, old(asm).poison() ==> asm.poison(),
        !asm.poison() ==> enc_seq(value@.subrange(0, verif_k0 as int)) is Some
            && asm.bits() == verif_b0 + enc_seq(value@.subrange(0, verif_k0 as int))->Some_0,
    decreases verif_sl0.len() - verif_k0,'''


def emit_vec(vf, exp, path, fr, ind, with_len):
    pid = fr.name
    elem = fr.elem
    vf.emit('\n'.join(ind + l for l in (ENC_SEQ % {'elem': elem}).split('\n')))
    if with_len:
        vf.emit(ind + 'pub open spec fn enc(v: DataType) -> Option<Seq<bool>> { if enc_seq(v@) is Some { Some(crate::bits_of_int(v@.len() as int, %d) + enc_seq(v@)->Some_0) } else { None } }' % fr.lb)
    else:
        vf.emit(ind + 'pub open spec fn enc(v: DataType) -> Option<Seq<bool>> { enc_seq(v@) }')
    # ---- encode
    sp = FnSpec(); sp.ret = 'r'; sp.body_props = PROPS_ENC
    sp.slice_map = {'value': 'value.as_slice()'}
    sp.replace = list(R6)
    sp.requires = [('l2.%s.encode.pre' % pid, set(), 'old(asm).cap() <= 0x100_0000_0000')]
    sp.ensures = [('l2.%s.encode.frame' % pid, PROPS_ENC, 'final(asm).cap() == old(asm).cap() && (old(asm).poison() ==> final(asm).poison())'),
                  ('l2.%s.encode.appends_enc' % pid, {'C01', 'C15'}, ENC_POST)]
    if with_len:
        sp.ensures.append(('l2.%s.encode.count_field_is_length' % pid, {'C15'},
                           'r is Ok && !final(asm).poison() ==> final(asm).bits().subrange(old(asm).bits().len() as int, (old(asm).bits().len() + %d) as int) == crate::bits_of_int(value@.len() as int, %d) && value@.len() < crate::pow2(%d)' % (fr.lb, fr.lb, fr.lb)))
    sp.inserts.append(('before', 'let verif_sl0 =', 0, 'let ghost verif_b0 = asm.bits();\nproof { assert(value@.subrange(0, 0) =~= Seq::<%s::DataType>::empty()); }' % elem))
    sp.loops[0] = LOOP_ENC_INV
    sp.inserts.append(('after', '%s::encode(asm, v)?;' % elem, 0,
                       'proof { if !asm.poison() { let verif_p = value@.subrange(0, verif_k0 as int); lemma_enc_seq_push(verif_p, *v); '
                       'assert(verif_p.push(*v) =~= value@.subrange(0, verif_k0 + 1)); '
                       'assert(asm.bits() =~= verif_b0 + (enc_seq(verif_p)->Some_0 + %s::enc(*v)->Some_0)); } }' % elem))
    tail = 'proof { assert(value@.subrange(0, value@.len() as int) =~= value@); '
    if with_len:
        tail += 'crate::lemma_bits_len(value@.len() as int, %d); assert(crate::pow2(%d) == %d) by(compute); ' % (fr.lb, fr.lb, 2 ** fr.lb)
        tail += ('if !asm.poison() { assert(asm.bits() =~= old(asm).bits() + (crate::bits_of_int(value@.len() as int, %d) + enc_seq(value@)->Some_0)); '
                 'assert(asm.bits().subrange(old(asm).bits().len() as int, (old(asm).bits().len() + %d) as int) =~= crate::bits_of_int(value@.len() as int, %d)); } ' % (fr.lb, fr.lb, fr.lb))
    tail += '}'
    sp.inserts.append(('before', 'Ok(())', 0, tail))
    vgen.emit_fn(vf, exp, path + ['fn:encode'], sp, label='%s::encode' % '::'.join(path[1:]), indent=ind, keep_pub=True)
    # ---- decode
    sp = FnSpec(); sp.ret = 'r'; sp.body_props = PROPS_DEC
    sp.replace = list(R6)
    sp.ensures = [('l2.%s.decode.nz_monotone' % pid, PROPS_DEC, 'old(par).nz() ==> final(par).nz()'),
                  ('l2.%s.decode.inverts_encode' % pid, {'C01', 'C15'}, DEC_POST)]
    if with_len:
        sp.ensures.append(('l2.%s.decode.count_le_capacity' % pid, {'C15', 'C02'}, 'r is Ok ==> r->Ok_0@.len() <= %s' % fr.cap))
        sp.ensures.append(('l2.%s.decode.count_field_is_length' % pid, {'C15'},
                           'r is Ok ==> old(par).rest().len() >= %d && crate::bits_of_int(r->Ok_0@.len() as int, %d) == old(par).rest().subrange(0, %d)' % (fr.lb_dec, fr.lb_dec, fr.lb_dec)))
        sp.ensures.append(('l2.%s.decode.over_capacity_rejected' % pid, {'C15', 'C02'},
                           '(old(par).rest().len() >= %d && (exists|c: int| %s < c < crate::pow2(%d) && crate::bits_of_int(c, %d) == old(par).rest().subrange(0, %d))) ==> r is Err'
                           % (fr.lb_dec, fr.cap, fr.lb_dec, fr.lb_dec, fr.lb_dec)))
        start = 'let ghost verif_s0 = par.rest(); let ghost mut verif_k: int = 0;'
        sp.inserts.append(('before', 'let len =', 0, start))
        sp.inserts.append(('after', 'let len =', 0,
                           'proof { crate::lemma_bits_len(len as int, %d); crate::lemma_consume(verif_s0, 0, %d); verif_k = %d; '
                           'assert forall|c: int| %s < c < crate::pow2(%d) && crate::bits_of_int(c, %d) == verif_s0.subrange(0, %d) implies c == len as int by { crate::lemma_bits_inj(c, len as int, %d); } }'
                           % (fr.lb_dec, fr.lb_dec, fr.lb_dec, fr.cap, fr.lb_dec, fr.lb_dec, fr.lb_dec, fr.lb_dec)))
        pre_bits = 'crate::bits_of_int(len as int, %d)' % fr.lb_dec
    else:
        sp.ensures.append(('l2.%s.decode.length_is_count' % pid, {'C15', 'C02'}, 'r is Ok ==> r->Ok_0@.len() == len'))
        sp.ensures.append(('l2.%s.decode.over_capacity_rejected' % pid, {'C15', 'C02'}, 'len > %s ==> r is Err && r->Err_0 is CapacityExceeded' % fr.cap))
        sp.inserts.append(('before', 'let mut value = DataVec::new();', 0, 'let ghost verif_s0 = par.rest(); let ghost mut verif_k: int = 0;'))
        pre_bits = 'Seq::<bool>::empty()'
    if 'return Err(RtcmError::CapacityExceeded);' in fr.dec_body:
        sp.inserts.append(('before', 'return Err(RtcmError::CapacityExceeded);', 0,
                           'proof { assert(len > %s); }  // C15: a capacity error only when the count really exceeds the capacity' % fr.cap))
    sp.loops[0] = ('''    invariant
        value@.len() == verif_i0, len <= %(cap)s, verif_s0 == old(par).rest(),
        old(par).nz() ==> par.nz(),
        !par.nz() ==> enc_seq(value@) is Some && 0 <= verif_k <= verif_s0.len()
            && verif_s0.subrange(0, verif_k) == %(pre)s + enc_seq(value@)->Some_0
            && par.rest() == verif_s0.subrange(verif_k, verif_s0.len() as int),''' % {'cap': fr.cap, 'pre': pre_bits})
    sp.inserts.append(('after', 'let v = %s::decode(par)?;' % elem, 0,
                       'proof { if !par.nz() { let verif_b = %s::enc(v)->Some_0; crate::lemma_consume(verif_s0, verif_k, verif_b.len() as int); '
                       'lemma_enc_seq_push(value@, v); '
                       'assert((%s + enc_seq(value@)->Some_0) + verif_b =~= %s + (enc_seq(value@)->Some_0 + verif_b)); '
                       'verif_k = verif_k + verif_b.len(); } }' % (elem, pre_bits, pre_bits)))
    sp.inserts.append(('before', 'let mut value = DataVec::new();', 0 if with_len else 1, '') if False else ('after', 'let mut value = DataVec::new();', 0,
                      'proof { assert(verif_s0.subrange(0, verif_k) =~= %s + Seq::<bool>::empty()); }' % pre_bits))
    sp.inserts.append(('before', 'Ok(value)', 0, 'proof { if !par.nz() { ' + ('crate::lemma_bits_len(len as int, %d); ' % fr.lb_dec if with_len else '') + '} }'))
    vgen.emit_fn(vf, exp, path + ['fn:decode'], sp, label='%s::decode' % '::'.join(path[1:]), indent=ind, keep_pub=True)
    return True


def emit_str(vf, exp, path, fr, ind):
    pid = fr.name
    lb = fr.lb
    vf.emit(ind + 'pub open spec fn enc(v: DataType) -> Option<Seq<bool>> { Some(crate::bits_of_int(v@.len() as int, %d) + crate::bytes_bits(v@)) }' % lb)
    sp = FnSpec(); sp.ret = 'r'; sp.body_props = PROPS_ENC | {'C17'}
    sp.slice_map = {'value': 'crate::util::verif_str_slice(value)'}
    sp.replace = list(R6)
    sp.requires = [('l2.%s.encode.pre' % pid, set(), 'old(asm).cap() <= 0x100_0000_0000')]
    sp.ensures = [('l2.%s.encode.frame' % pid, PROPS_ENC, 'final(asm).cap() == old(asm).cap() && (old(asm).poison() ==> final(asm).poison())'),
                  ('l2.%s.encode.appends_enc' % pid, {'C01', 'C15', 'C17'}, ENC_POST),
                  ('l2.%s.encode.count_field_is_length' % pid, {'C15'}, 'r is Ok ==> value@.len() < crate::pow2(%d)' % lb)]
    sp.inserts.append(('before', 'let verif_sl0 =', 0, 'let ghost verif_b0 = asm.bits();\nproof { assert(value@.subrange(0, 0) =~= Seq::<u8>::empty()); assert(crate::pow2(%d) == %d) by(compute); }' % (lb, 2 ** lb)))
    sp.loops[0] = '''    invariant
        verif_sl0@ == value@, verif_k0 <= verif_sl0.len(),
        asm.cap() == old(asm).cap(), asm.cap() <= 0x100_0000_0000, asm.poison() == old(asm).poison(),
        asm.bits() == verif_b0 + crate::bytes_bits(value@.subrange(0, verif_k0 as int)),
    decreases verif_sl0.len() - verif_k0,'''
    sp.inserts.append(('after', 'asm.put_U8(*v, 8)?;', 0,
                       'proof { let verif_p = value@.subrange(0, verif_k0 as int); crate::lemma_bytes_bits_push(verif_p, *v); '
                       'assert(verif_p.push(*v) =~= value@.subrange(0, verif_k0 + 1)); '
                       'assert(asm.bits() =~= verif_b0 + (crate::bytes_bits(verif_p) + crate::bits_of_int(*v as int, 8))); }'))
    sp.inserts.append(('before', 'Ok(())', 0, 'proof { assert(value@.subrange(0, value@.len() as int) =~= value@); '
                       'assert(asm.bits() =~= old(asm).bits() + (crate::bits_of_int(value@.len() as int, %d) + crate::bytes_bits(value@))); }' % lb))
    vgen.emit_fn(vf, exp, path + ['fn:encode'], sp, label='%s::encode' % '::'.join(path[1:]), indent=ind, keep_pub=True)
    sp = FnSpec(); sp.ret = 'r'; sp.body_props = PROPS_DEC | {'C17'}
    sp.replace = list(R6)
    lbd = fr.lb_dec
    sp.ensures = [('l2.%s.decode.nz_monotone' % pid, PROPS_DEC, 'old(par).nz() ==> final(par).nz()'),
                  ('l2.%s.decode.inverts_encode' % pid, {'C01', 'C15', 'C17'}, DEC_POST),
                  ('l2.%s.decode.count_le_capacity' % pid, {'C15', 'C02'}, 'r is Ok ==> r->Ok_0@.len() <= %s' % fr.cap),
                  ('l2.%s.decode.count_field_is_length' % pid, {'C15'},
                   'r is Ok ==> old(par).rest().len() >= %d && crate::bits_of_int(r->Ok_0@.len() as int, %d) == old(par).rest().subrange(0, %d)' % (lbd, lbd, lbd)),
                  ('l2.%s.decode.over_capacity_rejected' % pid, {'C15', 'C02'},
                   '(old(par).rest().len() >= %d && (exists|c: int| %s < c < crate::pow2(%d) && crate::bits_of_int(c, %d) == old(par).rest().subrange(0, %d))) ==> r is Err'
                   % (lbd, fr.cap, lbd, lbd, lbd))]
    sp.inserts.append(('before', 'let len = par.parse', 0, 'let ghost verif_s0 = par.rest(); let ghost mut verif_k: int = 0;'))
    sp.inserts.append(('after', 'let len = par.parse', 0,
                       'proof { crate::lemma_bits_len(len as int, %d); crate::lemma_consume(verif_s0, 0, %d); verif_k = %d; '
                       'assert forall|c: int| %s < c < crate::pow2(%d) && crate::bits_of_int(c, %d) == verif_s0.subrange(0, %d) implies c == len as int by { crate::lemma_bits_inj(c, len as int, %d); } }'
                       % (lbd, lbd, lbd, fr.cap, lbd, lbd, lbd, lbd)))
    pre_bits = 'crate::bits_of_int(len as int, %d)' % lbd
    if 'return Err(RtcmError::CapacityExceeded);' in fr.dec_body:
        sp.inserts.append(('before', 'return Err(RtcmError::CapacityExceeded);', 0,
                           'proof { assert(len as usize > %s); }  // C15: a capacity error only when the count really exceeds the capacity' % fr.cap))
    sp.loops[0] = ('''    invariant
        value@.len() == verif_i0, len as usize <= %(cap)s, verif_s0 == old(par).rest(),
        old(par).nz() ==> par.nz(),
        !par.nz() ==> 0 <= verif_k <= verif_s0.len()
            && verif_s0.subrange(0, verif_k) == %(pre)s + crate::bytes_bits(value@)
            && par.rest() == verif_s0.subrange(verif_k, verif_s0.len() as int),''' % {'cap': fr.cap, 'pre': pre_bits})
    sp.inserts.append(('after', 'let v = par.parse_U8(8)?;', 0,
                       'proof { if !par.nz() { crate::lemma_bits_len(v as int, 8); crate::lemma_consume(verif_s0, verif_k, 8); '
                       'crate::lemma_bytes_bits_push(value@, v); '
                       'assert((%s + crate::bytes_bits(value@)) + crate::bits_of_int(v as int, 8) =~= %s + (crate::bytes_bits(value@) + crate::bits_of_int(v as int, 8))); '
                       'verif_k = verif_k + 8; } }' % (pre_bits, pre_bits)))
    sp.inserts.append(('after', 'let mut value = Df88591String::new();', 0,
                       'proof { assert(verif_s0.subrange(0, verif_k) =~= %s + crate::bytes_bits(Seq::<u8>::empty())); }' % pre_bits))
    vgen.emit_fn(vf, exp, path + ['fn:decode'], sp, label='%s::decode' % '::'.join(path[1:]), indent=ind, keep_pub=True)


def emit_bias_decode(vf, exp, path, fr, ind):
    """C16/C02: the hand-written bias-list decoders, real text, verified for panic-freedom and the capacity bound.
    Emitted as `decode_checked` next to the external `decode` the parents call (the bit-log claim is void for these fragments)."""
    for c in fr.mod.children:
        if c.kind == 'fn' and c.name == 'to_sig':
            sp = FnSpec(); sp.ret = 'r'; sp.body_props = {'C16', 'C02'}
            vgen.emit_fn(vf, exp, path + ['fn:to_sig'], sp, label='%s::to_sig' % fr.name, indent=ind, keep_pub=True)
    m = re.search(r'DataVec::<(\w+), (\w+)>::new\(\)', fr.dec_body)
    if not m:
        raise ToolLimit('%s: decode does not create its DataVec as expected' % fr.name)
    cap = m.group(2)
    sp = FnSpec(); sp.ret = 'r'; sp.body_props = {'C16', 'C02'}
    sp.rename = 'decode_checked'
    sp.replace = list(R6) + [
        (r'\(par\.parse_I16\((\d+)\)\? as f32\) \* ([0-9.]+)', r'crate::verif_f32_scale(par.parse_I16(\1)?, \2)', 'RF float arithmetic (int->f32 cast and multiplication by a constant; cannot panic) abstracted by an uninterpreted helper'),
        (r'par\.parse_I16\((\d+)\)\? as f32', r'crate::verif_i16_to_f32(par.parse_I16(\1)?)', 'RF int->f32 cast abstracted (cannot panic)'),
        (r'bias_m: bias \* ([0-9.]+)', r'bias_m: crate::verif_f32_mul(bias, \1)', 'RF float multiplication abstracted (cannot panic)'),
        (r'::core::panicking::panic\("internal error: entered unreachable code"\),?', 'unreachable!(),', 'RX expansion of unreachable!() folded back'),
    ]
    sp.replace = [(a, b, c if c.startswith('R6') else 'R6-opt ' + c) for (a, b, c) in sp.replace]
    sp.ensures = [('l2.%s.decode.never_exceeds_capacity' % fr.name, {'C16', 'C02'}, 'r is Ok ==> r->Ok_0@.len() <= %s' % cap)]
    nloops = len(re.findall(r'\bfor\b', fr.dec_body))
    if nloops == 2:
        sp.loops[0] = '    invariant value@.len() <= %s,' % cap
        sp.loops[1] = '    invariant value@.len() <= %s,' % cap
    else:
        sp.loops[0] = '    invariant value@.len() <= i, i <= 4,'
    vgen.emit_fn(vf, exp, path + ['fn:decode'], sp, label='df::dfs::%s::decode' % fr.name, indent=ind, keep_pub=True)


def find_sat_elem(exp, mod, fr):
    """name of the satellite row struct: the data segment's satellite fragment is a shared module (msmNN_sat) imported by glob"""
    st = exp.text[fr.struct.start:fr.struct.end]
    m = re.search(r'satellite_data:\s*(\w+)::DataType', st)
    satmod = m.group(1)
    msg = exp.find(['msg'])
    for top in msg.children:
        if top.kind == 'mod' and top.name == satmod:
            for c in top.children:
                if c.kind == 'mod' and c.name == satmod:
                    for d in c.children:
                        if d.kind == 'struct':
                            return '%s::%s' % (satmod, d.name)
    raise ToolLimit('satellite fragment %s not found' % satmod)


FRAG_BITS = {}   # fragment / leaf name -> bit length of its encoding with every list at capacity, as an expression over the crate's constants (None: not computed)


def cap_expr(cap):
    return cap if re.fullmatch(r'\d+', cap) else 'crate::msg::' + cap


def frag_bits(fr):
    """bit length of enc(v) when every list holds `capacity` elements: the sum of the leaf widths along the generated enc()"""
    if fr.kind == 'record':
        parts = []
        for st in fr.enc_steps:
            b = FRAG_BITS.get(st[1])
            if b is None:
                return None
            parts.append(b)
        return '(' + ' + '.join(parts) + ')'
    if fr.kind in ('vec', 'vec_len'):
        b = FRAG_BITS.get(fr.elem)
        if b is None:
            return None
        e = '%s * %s' % (cap_expr(fr.cap), b)
        return '(%d + %s)' % (fr.lb, e) if fr.kind == 'vec_len' else '(' + e + ')'
    if fr.kind == 'str_len':
        return '(%d + 8 * %s)' % (fr.lb, cap_expr(fr.cap))
    return None


def emit_module(vf, exp, path, mod, depth, stats, leafs, parent_mod=None):
    """emit module `mod` (child of msg tree) recursively"""
    ind = '    ' * depth
    vf.emit(ind + 'pub mod %s {' % mod.name)
    vf.emit(ind + '    use vstd::prelude::*;')
    # use lines
    for c in mod.children:
        if c.kind == 'use':
            t = norm_ws(exp.text[c.start:c.end])
            if 'export_types' in t or 'serde' in t or 'Serialize' in t or 'source_repr' in t or 'val_gen' in t:
                continue
            if 'cell_mask_id_vec' in t:
                pass
            vf.emit(ind + '    #[allow(unused_imports)] ' + t)
    fr = classify(exp, mod)
    subs = [c for c in mod.children if c.kind == 'mod' and c.name != 'export_types']
    for c in subs:
        emit_module(vf, exp, path + [c.name], c, depth + 1, stats, leafs, parent_mod=mod)
    if fr is not None:
        i2 = ind + '    '
        FRAG_BITS[fr.name] = frag_bits(fr)
        if len(path) == 3 and path[0] == 'msg' and path[1] == path[2] and FRAG_BITS[fr.name] is not None and re.search(r'crate::msg::', FRAG_BITS[fr.name]):
            # C15: "for every element count from zero to the list's capacity the message encodes within the 1023-byte payload":
            # 12 bits of message number + the encoding with every list full must fit 8184 bits (enc() is monotone in the counts)
            vgen.emit_lemma(vf, 'l2.%s.full_lists_fit_payload' % fr.name, {'C15', 'C09'},
                            i2 + 'pub proof fn lemma_full_lists_fit_payload()\n' + i2 + '    ensures 12 + %s <= 8184,\n' % FRAG_BITS[fr.name] + i2 + '{}')
            stats.setdefault('fits', []).append((fr.name, FRAG_BITS[fr.name]))
        if fr.struct is not None:
            vf.emit(i2 + '#[derive(Default, Clone)]  // X7: derives re-attached in place of their expansion')
            vf.emit(i2 + '#[verifier::allow(autoderive_clone_without_spec)]')
            vgen.emit_item(vf, exp, path + ['struct:' + fr.struct.name], indent=i2, keep_pub=True, keep_field_pub=True)
        if fr.type_alias is not None:
            vf.emit(i2 + norm_ws(exp.text[fr.type_alias.start:fr.type_alias.end]))
        if fr.kind == 'record':
            same = emit_record(vf, exp, path, fr, i2)
            stats['record'].append(('::'.join(path), same))
        elif fr.kind == 'str_len':
            emit_str(vf, exp, path, fr, i2)
            stats['record'].append(('::'.join(path), True))
        elif fr.kind in ('vec', 'vec_len'):
            emit_vec(vf, exp, path, fr, i2, fr.kind == 'vec_len')
            stats['record'].append(('::'.join(path), True))
        elif unit_l2_rows.looks_like_rows(fr):
            # row fragments: checked copies under contract + the external stubs the data segment calls
            rsh = unit_l2_rows.emit(vf, exp, path, fr, i2)
            stats['record'].append(('::'.join(path), True))
            stats['opaque'].append(('::'.join(path), 'row fragment stubs called by the data segment (contract clauses proved on encode_checked/decode_checked)'))
            extra = ''
            m = re.search(r'par: &mut Parser\s*,\s*(.+?)\)\s*->', fr.dec_sig)
            if m:
                extra = ', ' + m.group(1)
            stub = opaque_frag_stub(fr.name, None, extra)
            stub = stub.replace('// L0: append-only', '// L0: append-only\n                    r is Err ==> (r->Err_0 is BufferOverflow || r->Err_0 is OutOfRange),')
            stub = stub.replace('// L0: append-only', '// L0: append-only\n                    ' + ',\n                    '.join(c.replace('\n', ' ') for c in rsh['stub_encode_ensures']) + ',   // proved on encode_checked')
            stub = stub.replace('ensures final(par).nz(),', 'ensures final(par).nz(),   // + the clauses proved on decode_checked:\n                    '
                                + ',\n                    '.join(c.replace('\n', ' ') for c in rsh['stub_decode_ensures']) + ',')
            vf.emit(stub.replace('            ', i2))
        elif unit_l2_msm.is_msm_data(fr):
            fr.parent = parent_mod
            fr.sat_elem = find_sat_elem(exp, mod, fr)
            unit_l2_msm.emit(vf, exp, path, fr, i2)
            stats['record'].append(('::'.join(path), True))
        else:
            # Only fragments of a template this unit is known not to reach may be left external.  Anything else that
            # does not match its template is a tool limit (exit 2), never a silent weakening.
            why = getattr(fr, 'why', None)
            body = fr.enc_body + ' ' + fr.dec_body
            if fr.kind == 'grid':
                why = 'frag_grid16p! (Grid16P::iter_mut element assignment is outside the rewrite list)'
            elif why is None and fr.name in ('df_msg1059_biases', 'df_msg1065_biases', 'df_msg1230_biases', 'df_msg1029_utf8_str'):
                why = 'hand-written codec (bias lists / UTF-8 text): iterator adapters outside Verus'
            elif why is None and re.search(r'\bsat_mask\b|sort_unstable_by|cell_mask_id_vec', body) and re.search(r'satellite_id', body):
                why = 'MSM template (msm_sat_frag!/msm_sig_frag!, decode side of msm_data_seg_frag!): closure sort and iter_mut zip are outside Verus'
            if why is None:
                raise ToolLimit('fragment %s does not match any template known to unit l2 (encode: %s)' % ('::'.join(path), fr.enc_body[:200]))
            stats['opaque'].append(('::'.join(path), why))
            msm_rows = why.startswith('MSM template') and not unit_l2_msm.is_msm_data(fr)
            extra = ''
            m = re.search(r'par: &mut Parser\s*,\s*(.+?)\)\s*->', fr.dec_sig)
            if m:
                extra = ', ' + m.group(1)
            if unit_l2_bias.is_bias_list(fr):
                unit_l2_bias.emit(vf, exp, path, fr, i2)
                unit_l2_bias.emit_decode(vf, exp, path, fr, i2)
            elif fr.name == 'df_msg1230_biases':
                unit_l2_bias.emit_1230(vf, exp, path, fr, i2)
                unit_l2_bias.emit_1230_decode(vf, exp, path, fr, i2)
            stub = opaque_frag_stub(fr.name, None, extra)
            if 'msm_rows' in dir() and msm_rows:
                # row fragments only call data-field encoders: by inspection their only errors are the leaves' (assumed, listed)
                stub = stub.replace('// L0: append-only', '// L0: append-only\n                    r is Err ==> (r->Err_0 is BufferOverflow || r->Err_0 is OutOfRange),')
            vf.emit(stub.replace('            ', i2))
    vf.emit(ind + '}')


def emit_mappings(vf, exp):
    """signal tables: the SigId types (and, as real text, to_sig/to_id) so that MSM structs type-check"""
    mm = exp.find(['msg', 'msm_mappings'])
    vf.emit('    pub mod msm_mappings {')
    for g in [c for c in mm.children if c.kind == 'mod']:
        base = ['msg', 'msm_mappings', g.name]
        vf.emit('        pub mod %s {' % g.name)
        vf.emit('            use vstd::prelude::*;')
        vf.emit('            #[derive(Clone, Copy, PartialEq, Eq, Default)]  // X7')
        vgen.emit_item(vf, exp, base + ['struct:SigId'], indent='            ', keep_pub=True, replace=[(r'\(u8, char\)', '(pub u8, pub char)')])
        vgen.emit_spec_twin(vf, exp, base + ['fn:to_sig'], 'to_sig_spec', indent='            ')
        vgen.emit_spec_twin(vf, exp, base + ['fn:to_id'], 'to_id_spec', indent='            ')
        for (fn, ens) in (('to_sig', 'r == to_sig_spec(id)'), ('to_id', 'r == to_id_spec(sig)')):
            sp = FnSpec(); sp.ret = 'r'; sp.body_props = {'C10'}
            sp.ensures = [('l2.sig.%s.%s.twin' % (g.name, fn), {'C10'}, ens)]
            vgen.emit_fn(vf, exp, base + ['fn:' + fn], sp, label='msm_mappings::%s::%s' % (g.name, fn), indent='            ', keep_pub=True)
        vf.emit('            impl SigId {')
        for fn in ('new', 'band', 'attribute'):
            sp = FnSpec(); sp.ret = 'r'; sp.body_props = {'C16', 'C02'}
            sp.ensures = [('l2.sig.%s.%s' % (g.name, fn), {'C16'}, {'new': 'r.0 == band && r.1 == attribute', 'band': 'r == self.0', 'attribute': 'r == self.1'}[fn])]
            vgen.emit_fn(vf, exp, base + ['impl:SigId', fn], sp, label='msm_mappings::%s::SigId::%s' % (g.name, fn), indent='                ', keep_pub=True)
        vf.emit('            }')
        vf.emit('            pub proof fn lemma_id_range(s: SigId) ensures to_id_spec(s) is Some ==> 2 <= to_id_spec(s)->Some_0 <= 32 {}')
        # the hand-written Ord on SigId (order of mask positions), as in unit sigtab: real text as a free function (X6)
        vf.emit('''            pub open spec fn cmp_spec(a: SigId, b: SigId) -> core::cmp::Ordering {
                match (to_id_spec(a), to_id_spec(b)) {
                    (Some(l), Some(r)) => crate::ord3(l as int, r as int),
                    (None, Some(_)) => core::cmp::Ordering::Greater,
                    (Some(_), None) => core::cmp::Ordering::Less,
                    (None, None) => if a.0 != b.0 { crate::ord3(a.0 as int, b.0 as int) } else { crate::ord3(a.1 as u32 as int, b.1 as u32 as int) },
                }
            }''')
        sp = FnSpec(); sp.ret = 'res'; sp.body_props = {'C10'}; sp.rename = 'sig_cmp'
        sp.sigreplace = [(r'fn cmp\(&self, other: &Self\)', 'fn cmp(slf: &SigId, other: &SigId)', 'trait method Ord::cmp emitted as free fn, self -> slf')]
        sp.replace = [(r'\bself\b', 'slf', 'self renamed to slf (free function)')]
        sp.ensures = [('l2.sig.%s.cmp' % g.name, {'C10'}, 'res == cmp_spec(*slf, *other)')]
        vgen.emit_fn(vf, exp, base + ['Ord for SigId', 'cmp'], sp, label='msm_mappings::%s::SigId::cmp' % g.name, indent='            ', keep_pub=True)
        vgen.emit_lemma(vf, 'l2.sig.%s.total_order' % g.name, {'C10'}, '''            pub proof fn lemma_total_order(a: SigId, b: SigId, c: SigId)
                ensures
                    cmp_spec(a, a) == core::cmp::Ordering::Equal,
                    (cmp_spec(a, b) == core::cmp::Ordering::Less) == (cmp_spec(b, a) == core::cmp::Ordering::Greater),
                    (cmp_spec(a, b) == core::cmp::Ordering::Equal) == (cmp_spec(b, a) == core::cmp::Ordering::Equal),
                    cmp_spec(a, b) != core::cmp::Ordering::Greater && cmp_spec(b, c) != core::cmp::Ordering::Greater ==> cmp_spec(a, c) != core::cmp::Ordering::Greater,
                    to_id_spec(a) is Some && to_id_spec(b) is Some ==> cmp_spec(a, b) == crate::ord3(to_id_spec(a)->Some_0 as int, to_id_spec(b)->Some_0 as int),
            {}''')
        vf.emit('        }')
    vf.emit('    }')
    for g in [c for c in mm.children if c.kind == 'mod']:
        vf.emit('    pub use msm_mappings::%s::SigId as %sSigId;' % (g.name, g.name.capitalize()))


def build(vf, srcs):
    exp = srcs['exp']
    fields, others = dfinv.fields()
    only = os.environ.get('RTCM_L2_ONLY')
    global FLOAT_LEAVES
    FLOAT_LEAVES = set(f.name for f in fields if f.datatype in ('f32', 'f64'))
    vgen.process_template(vf, os.path.join(common.VERIF, 'contracts', 'l2_prelude.vt'), srcs)
    # strip the closing of the prelude's verus! block: the template leaves it open on purpose
    leaves = '\n'.join(leaf_stub(f) for f in fields)
    pre = PRELUDE2.replace('@PUTS@', '\n'.join(put_stub(c) for c in UNSIGNED) + '\n' + SIGNED_PUT).replace('@PARSES@', '\n'.join(parse_stub(c) for c in UNSIGNED) + '\n' + SIGNED_PARSE).replace('@LEAVES@', leaves)
    vf.emit(pre)
    stats = {'record': [], 'opaque': []}
    FRAG_BITS.clear()
    for f in fields:
        FRAG_BITS[f.name] = str(f.len)
    dfs = exp.find(['df', 'dfs'])
    for c in dfs.children:
        if c.kind == 'mod' and c.name in others:
            emit_module(vf, exp, ['df', 'dfs', c.name], c, 2, stats, fields)
    vf.emit('    }\n}')
    vf.emit('pub mod msg {')
    vf.emit('    use vstd::prelude::*;')
    msg = exp.find(['msg'])
    for c in msg.children:
        if c.kind == 'const':
            vf.emit('    ' + norm_ws(exp.text[c.start:c.end]))
    vf.emit('    use crate::{av_view, av_cap};')
    vf.emit('    use tinyvec::ArrayVec;')
    emit_mappings(vf, exp)
    vgen.process_template(vf, os.path.join(common.VERIF, 'contracts', 'masks.vt'), srcs)
    for c in msg.children:
        if c.kind == 'mod' and c.name not in ('message', 'msm_mappings'):
            if only and not (c.name in only.split(',') or c.name.startswith('msm')):
                continue
            emit_module(vf, exp, ['msg', c.name], c, 1, stats, fields)
    vf.emit('}')
    vf.emit('} // verus!\nfn main() {}')
    vf.l2_stats = stats
