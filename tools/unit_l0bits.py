"""Unit l0bits (C07; base of C01/C02/C08/C09): Kani on Assembler::put / Parser::parse for every carrier the
crate instantiates (inventory from the expansion)."""
import os
import re

import common
import kani_engine
from vgen import Oblig
from rsx import ToolLimit

CARRIERS = {
    'U8': ('u8', 8, 'u'), 'U16': ('u16', 16, 'u'), 'U32': ('u32', 32, 'u'), 'U64': ('u64', 64, 'u'), 'U128': ('u128', 128, 'u'),
    'I8': ('i8', 8, 's'), 'I16': ('i16', 16, 's'), 'I32': ('i32', 32, 's'), 'I64': ('i64', 64, 's'), 'I128': ('i128', 128, 's'),
    'SM8': ('i8', 8, 'sm'), 'SM16': ('i16', 16, 'sm'), 'SM32': ('i32', 32, 'sm'), 'SM64': ('i64', 64, 'sm'), 'SM128': ('i128', 128, 'sm'),
}

CLAUSES = {
    'put': ['put.overflow_reports_error', 'put.overflow_keeps_cursor', 'put.overflow_keeps_buffer', 'put.ok_iff_fits',
            'put.cursor_advances', 'put.field_bits_msb_first', 'put.other_bits_untouched', 'put.no_panic_no_overflow'],
    'parse': ['parse.overflow_reports_error', 'parse.overflow_keeps_cursor', 'parse.ok_iff_fits', 'parse.cursor_advances',
              'parse.value_is_field_bits', 'parse.no_panic_no_overflow'],
    'rt': ['roundtrip.parse_put_identity'],
}
PROPS = {'C07', 'C01', 'C02', 'C09', 'C08', 'C15'}


def inventory():
    exp = common.expanded_source()
    used = set(re.findall(r'\b(?:put|parse)::<(\w+)>', exp.text))
    unknown = used - set(CARRIERS)
    if unknown:
        raise ToolLimit('carrier types not known to the L0 harness generator: %s' % sorted(unknown))
    if not used:
        raise ToolLimit('no put/parse instantiations found')
    return sorted(used)


def gen(window, carriers):
    t = open(os.path.join(common.VERIF, 'kani', 'c07_bits.rs.tmpl')).read()
    hs = []
    names = []
    maxbytes = 1
    for c in carriers:
        vt, bits, kind = CARRIERS[c]
        maxbytes = max(maxbytes, bits // 8)
        if bits > 64:
            raise ToolLimit('128-bit carriers are not supported by the harness oracle')
        if kind == 'u':
            enc, repr_, k, rrepr = '|v, _| v as u64', '|_, _| true', 0, '|v, len| repr_u(v as u64, len)'
        elif kind == 's':
            enc, repr_, k, rrepr = '|v, _| v as i64 as u64', '|_, _| true', 1, '|v, len| repr_tc(v as i64, len)'
        else:
            enc, repr_, k, rrepr = '|v, len| sm_encode(v as i64, len)', '|v, len| repr_sm(v as i64, len)', 2, '|v, len| repr_sm(v as i64, len)'
        hs.append('put_harness!(put_%s, %s, %s, %d, %s, %s);' % (c, c, vt, bits, enc, repr_))
        hs.append('parse_harness!(parse_%s, %s, %s, %d, %d);' % (c, c, vt, bits, k))
        hs.append('roundtrip_harness!(rt_%s, %s, %s, %d, %s);' % (c, c, vt, bits, rrepr))
        names += ['put_' + c, 'parse_' + c, 'rt_' + c]
    # the real loop runs over at most min(window, carrier bytes + 1) bytes; +1 for the exit test
    unwind = min(window, maxbytes + 1) + 1
    return (t.replace('@W@', str(window)).replace('@UNWIND@', str(unwind)).replace('@HARNESSES@', '\n'.join(hs)), names)


def run(tier, seed):
    from units import UnitResult
    ur = UnitResult('l0bits', 'kani-cbmc-cadical')
    carriers = inventory()
    # window: every alignment and multi-byte span of the widest field of the carrier, plus slack
    windows = {}
    for c in carriers:
        b = CARRIERS[c][1] // 8
        windows[c] = (b + 3) if tier == 'quick' else 1023   # thorough: every buffer length the crate can construct (payload window of 1023 bytes)
    by_w = {}
    for c in carriers:
        by_w.setdefault(windows[c], []).append(c)
    for w, cs in sorted(by_w.items()):
        text, names = gen(w, cs)
        out = kani_engine.run_kani(text, names, tag='l0_%d' % w, timeout=3000 if tier == 'quick' else 20000)
        ur.cmds.append(out['cmd'])
        ur.wall_s += out['wall_s']
        for h in names:
            r = out['results'][h]
            kind, c = h.split('_', 1)
            ur.solver_s += r['time_s'] or 0
            if r['status'] == 'tool':
                ur.tool_errors.append('l0bits harness %s (window %d bytes): %s' % (h, w, r['detail'][-1200:]))
                continue
            hit = kani_engine.failed_clauses(text, r) if r['status'] == 'failed' else set()
            cex = None
            if r['status'] == 'failed':
                try:
                    cex = kani_engine.concrete_playback(text, h, tag='l0cp')
                except Exception:
                    cex = None
            for cl in CLAUSES[kind]:
                ob = Oblig('l0.%s.%s' % (c, cl), PROPS, 'kani-assert', ('Assembler::put::<%s>' if kind == 'put' else 'Parser::parse::<%s>' if kind == 'parse' else 'put+parse::<%s>') % c, cl)
                if r['status'] == 'failed':
                    mine = (cl in hit) or ('#unmapped' in hit and not cl.endswith('no_panic_no_overflow')) or ('#panic' in hit and cl.endswith('no_panic_no_overflow')) \
                        or (not hit)
                    if mine:
                        ob.failed = [r['detail'][-1500:]]
                        if cex:
                            ob.counterexample = {'kani_concrete_playback': cex, 'harness': h}
                ur.obligs.append(ob)
        ur.functions.append({'name': 'Assembler::put', 'lo': 0, 'hi': 0, 'origin': 'src/df/assembler.rs (compiled crate)', 'path': 'df::assembler::Assembler::put'})
        ur.bounded.append('L0 put/parse carriers %s: all values, widths 1..=BITS, all bit offsets and background contents; buffer length symbolic up to %d bytes (bounded(window): locality of put/parse in the buffer beyond the window is not mechanised)' % (','.join(cs), w))
    ur.functions = [{'name': n, 'lo': 0, 'hi': 0, 'origin': 'compiled crate (Kani)', 'path': n, 'n_requires': 0, 'n_ensures': 0, 'n_loops': 1}
                    for n in sorted(set(o.func for o in ur.obligs))]
    ur.trusted += ['Kani 0.68 + CBMC 6.11 + CaDiCaL; rustc MIR semantics as modelled by Kani', 'unwinding bound = min(window, carrier bytes + 1) + 1 with unwinding assertions on (the only loop is the real per-byte loop; oracles are loop-free)']
    return ur
