"""Unit crcstep (C03, C04): Kani on the real crc-any code that MessageFrame::new calls.  The Verus unit `frame` assumes of the
dependency that `crc24lte_a / digest / get_crc` compute the left fold of the bit-serial CRC-24Q byte step; this unit discharges the
per-byte part of that assumption (every register state x every byte) and the fold for slices up to 4 bytes."""
import os
import common
import kani_engine
from vgen import Oblig

QUICK = {
    'crcstep_every_state_every_byte': (['crcdep.init_is_zero', 'crcdep.three_bytes_reach_state', 'crcdep.byte_step_is_crc24q_step'],
                                       'complete: every 24-bit register state (reached by three symbolic bytes) x every byte'),
    'crcstep_three_bytes_injective': (['crcdep.three_byte_prefix_injective', 'crcdep.ref_state_24_bits'],
                                      'complete: all pairs of three-byte prefixes (injective on 2^24 => onto the 2^24 states)'),
    'crcstep_digest_whole_slice': (['crcdep.digest_is_left_fold_up_to_4', 'crcdep.result_fits_24_bits'], 'bounded: slices of 4 bytes'),
    'crcstep_reference_surjective_witness': (['crcdep.ref_stays_24_bits'], 'complete: every state x every bit'),
}
FN = 'crc_any::CRC::{crc24lte_a, digest, get_crc} (dependency, as resolved by Cargo.lock)'
THOROUGH = {
    'crcstep_digest_splits_anywhere': (['crcdep.digest_splits'], 'bounded: 4 bytes, split at every position'),
}


def run(tier, seed):
    from units import UnitResult
    ur = UnitResult('crcstep', 'kani-cbmc-cadical')
    hs = dict(QUICK)
    if tier == 'thorough':
        hs.update(THOROUGH)
    text = open(os.path.join(common.VERIF, 'kani', 'crcstep.rs')).read()
    # feature set `std` only: the harness needs nothing but crc-any and the crate's dependency resolution (Cargo.lock of the current tree)
    out = kani_engine.run_kani(text, list(hs), features='std', tag='crcstep', timeout=900 if tier == 'quick' else 3000, jobs=8)
    ur.cmds.append(out['cmd'])
    ur.wall_s = out['wall_s']
    for h, (clauses, scope) in hs.items():
        r = out['results'][h]
        ur.solver_s += r['time_s'] or 0
        if r['status'] == 'tool':
            ur.tool_errors.append('crcstep harness %s: %s' % (h, r['detail'][-1200:]))
            continue
        if r.get('covers') and r['covers'][0] != r['covers'][1]:
            ur.tool_errors.append('crcstep harness %s: VACUITY cover not satisfied (%d of %d)' % (h, r['covers'][0], r['covers'][1]))
        hit = kani_engine.failed_clauses(text, r) if r['status'] == 'failed' else set()
        for cl in clauses:
            ob = Oblig(cl, {'C03', 'C04'}, 'kani-assert', FN, '%s: %s' % (h, scope))
            if r['status'] == 'failed' and (cl in hit or not (hit & set(clauses))):
                ob.failed = [r['detail'][-1500:]]
            ur.obligs.append(ob)
        if scope.startswith('bounded'):
            ur.bounded.append('%s: %s' % (h, scope))
    ur.functions = [{'name': FN, 'lo': 0, 'hi': 0, 'origin': 'compiled dependency (Kani)',
                     'path': 'crc-any', 'n_requires': 0, 'n_ensures': 8, 'n_loops': 0}]
    ur.trusted += ['the bit-serial reference in kani/crcstep.rs (ref_bit/ref_byte) is the same text as crc_bit/crc_byte_k of contracts/crc_defs.vt, transcribed by hand (12 lines)',
                   'crc-any digest over slices longer than 4 bytes is the left fold of the byte step (its `for` loop): assumed; the byte step itself is proved for every state and byte']
    return ur
