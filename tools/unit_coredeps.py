"""Unit coredeps (C18): Kani on the standard-library comparison that unit sigtab only assumes (`<char as Ord>::cmp` == code-point order)."""
import os
import re
import common
import kani_engine
from vgen import Oblig

FN = 'core: <char as Ord>::cmp, <u8 as Ord>::cmp (standard library, as compiled)'


def run(tier, seed):
    from units import UnitResult
    ur = UnitResult('coredeps', 'kani-cbmc-cadical')
    text = open(os.path.join(common.VERIF, 'kani', 'coredeps.rs')).read()
    hs = re.findall(r'#\[kani::proof\]\nfn (\w+)', text)
    out = kani_engine.run_kani(text, hs, features='std', tag='coredeps', timeout=600, jobs=4)
    ur.cmds.append(out['cmd'])
    ur.wall_s = out['wall_s']
    for h in hs:
        b = text[text.index('fn %s(' % h):]
        nxt = b.find('#[kani::proof]')
        b = b if nxt < 0 else b[:nxt]
        clauses = [c for c in re.findall(r'"(coredep\.[\w.]+)"', b) if '.reach.' not in c]
        r = out['results'][h]
        ur.solver_s += r['time_s'] or 0
        if r['status'] == 'tool':
            ur.tool_errors.append('coredeps harness %s: %s' % (h, r['detail'][-1200:]))
            continue
        if r.get('covers') and r['covers'][0] != r['covers'][1]:
            ur.tool_errors.append('coredeps harness %s: VACUITY cover not satisfied (%d of %d)' % (h, r['covers'][0], r['covers'][1]))
        hit = kani_engine.failed_clauses(text, r) if r['status'] == 'failed' else set()
        for cl in clauses:
            ob = Oblig(cl, {'C18'}, 'kani-assert', FN, '%s: complete: every pair of values' % h)
            if r['status'] == 'failed' and (cl in hit or not (hit & set(clauses))):
                ob.failed = [r['detail'][-1500:]]
            ur.obligs.append(ob)
    ur.functions = [{'name': FN, 'lo': 0, 'hi': 0, 'origin': 'compiled standard library (Kani)', 'path': 'core', 'n_requires': 0, 'n_ensures': 3, 'n_loops': 0}]
    ur.trusted += ['Kani 0.68 + CBMC 6.11 + CaDiCaL on the standard library as Kani compiles it']
    return ur
