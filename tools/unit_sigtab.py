"""Unit sigtab (C18): the seven MSM signal tables, cut from the macro-expanded crate."""
import re
import vgen
from vgen import FnSpec
from rsx import ToolLimit

# RTCM 10403.3 MSM signal-mask positions = RINEX 3 band/attribute (reference, independent of /repo).
# One-directional: every standardised descriptor must map to its standard position; additional
# descriptors in /repo are not an alarm.
REFERENCE = {
    'gps': [(2, 1, 'C'), (3, 1, 'P'), (4, 1, 'W'), (8, 2, 'C'), (9, 2, 'P'), (10, 2, 'W'), (15, 2, 'S'), (16, 2, 'L'),
            (17, 2, 'X'), (22, 5, 'I'), (23, 5, 'Q'), (24, 5, 'X'), (30, 1, 'S'), (31, 1, 'L'), (32, 1, 'X')],
    'glo': [(2, 1, 'C'), (3, 1, 'P'), (8, 2, 'C'), (9, 2, 'P')],
    'gal': [(2, 1, 'C'), (3, 1, 'A'), (4, 1, 'B'), (5, 1, 'X'), (6, 1, 'Z'), (8, 6, 'C'), (9, 6, 'A'), (10, 6, 'B'),
            (11, 6, 'X'), (12, 6, 'Z'), (14, 7, 'I'), (15, 7, 'Q'), (16, 7, 'X'), (18, 8, 'I'), (19, 8, 'Q'), (20, 8, 'X'),
            (22, 5, 'I'), (23, 5, 'Q'), (24, 5, 'X')],
    'sbas': [(2, 1, 'C'), (22, 5, 'I'), (23, 5, 'Q'), (24, 5, 'X')],
    'qzss': [(2, 1, 'C'), (9, 6, 'S'), (10, 6, 'L'), (11, 6, 'X'), (15, 2, 'S'), (16, 2, 'L'), (17, 2, 'X'),
             (22, 5, 'I'), (23, 5, 'Q'), (24, 5, 'X'), (30, 1, 'S'), (31, 1, 'L'), (32, 1, 'X')],
    'bds': [(2, 2, 'I'), (3, 2, 'Q'), (4, 2, 'X'), (8, 6, 'I'), (9, 6, 'Q'), (10, 6, 'X'), (14, 7, 'I'), (15, 7, 'Q'), (16, 7, 'X')],
    'navic': [(22, 5, 'A')],
}

PRELUDE = '''use vstd::prelude::*;
use core::cmp::Ordering;
verus! {
global size_of usize == 8;
pub open spec fn ord3(a: int, b: int) -> Ordering {
    if a < b { Ordering::Less } else if a == b { Ordering::Equal } else { Ordering::Greater }
}
// core: char ordering is code-point ordering (assumed specification of a dependency)
pub assume_specification[<char as Ord>::cmp](a: &char, b: &char) -> (r: Ordering)
    ensures r == ord3(*a as u32 as int, *b as u32 as int);
'''

P = {'C18'}


def build(vf, srcs):
    exp = srcs['exp']
    mm = exp.find(['msg', 'msm_mappings'])
    gnss = [c.name for c in mm.children if c.kind == 'mod']
    if not gnss:
        raise ToolLimit('no constellation modules found in msg::msm_mappings')
    vf.emit(PRELUDE)
    for g in gnss:
        base = ['msg', 'msm_mappings', g]
        vf.emit('pub mod %s {' % g)
        vf.emit('use vstd::prelude::*; use core::cmp::Ordering; use super::ord3;')
        vf.emit('#[derive(Clone, Copy, PartialEq, Eq)]  // X7: derives re-attached in place of their expansion')
        vgen.emit_item(vf, exp, base + ['struct:SigId'], indent='', keep_pub=True,
                       replace=[(r'\(u8, char\)', '(pub u8, pub char)')])
        vgen.emit_spec_twin(vf, exp, base + ['fn:to_sig'], 'to_sig_spec', indent='')
        vgen.emit_spec_twin(vf, exp, base + ['fn:to_id'], 'to_id_spec', indent='')
        vf.emit('''pub open spec fn cmp_spec(a: SigId, b: SigId) -> Ordering {
    match (to_id_spec(a), to_id_spec(b)) {
        (Some(l), Some(r)) => ord3(l as int, r as int),      // recognised: order of mask positions
        (None, Some(_)) => Ordering::Greater,                  // unrecognised after recognised
        (Some(_), None) => Ordering::Less,
        (None, None) => if a.0 != b.0 { ord3(a.0 as int, b.0 as int) } else { ord3(a.1 as u32 as int, b.1 as u32 as int) },
    }
}''')
        # exec functions
        sp = FnSpec(); sp.ret = 'r'; sp.body_props = P
        sp.ensures = [('sig.%s.to_sig.twin' % g, P, 'r == to_sig_spec(id)')]
        vgen.emit_fn(vf, exp, base + ['fn:to_sig'], sp, label='%s::to_sig' % g, indent='')
        sp = FnSpec(); sp.ret = 'r'; sp.body_props = P
        sp.ensures = [('sig.%s.to_id.twin' % g, P, 'r == to_id_spec(sig)')]
        vgen.emit_fn(vf, exp, base + ['fn:to_id'], sp, label='%s::to_id' % g, indent='')
        vf.emit('impl SigId {')
        for (fn, ens) in (('new', 'r.0 == band && r.1 == attribute'), ('band', 'r == self.0'), ('attribute', 'r == self.1'),
                          ('is_valid', 'r == (to_id_spec(self) is Some)')):
            sp = FnSpec(); sp.ret = 'r'; sp.body_props = P
            sp.ensures = [('sig.%s.%s' % (g, fn), P, ens)]
            vgen.emit_fn(vf, exp, base + ['impl:SigId', fn], sp, label='%s::SigId::%s' % (g, fn), indent='    ')
        vf.emit('}')
        # Ord::cmp and PartialOrd::partial_cmp as free functions (X6)
        sp = FnSpec(); sp.ret = 'res'; sp.body_props = P; sp.rename = 'sig_cmp'
        sp.sigreplace = [(r'fn cmp\(&self, other: &Self\)', 'fn cmp(slf: &SigId, other: &SigId)',
                          'trait method Ord::cmp emitted as free fn, self -> slf')]
        sp.replace = [(r'\bself\b', 'slf', 'self renamed to slf (free function)')]
        sp.ensures = [('sig.%s.cmp' % g, P, 'res == cmp_spec(*slf, *other)')]
        vgen.emit_fn(vf, exp, base + ['Ord for SigId', 'cmp'], sp, label='%s::SigId::cmp' % g, indent='')
        sp = FnSpec(); sp.ret = 'res'; sp.body_props = P; sp.rename = 'sig_partial_cmp'
        sp.sigreplace = [(r'fn partial_cmp\(&self, other: &Self\)', 'fn partial_cmp(slf: &SigId, other: &SigId)',
                          'trait method PartialOrd::partial_cmp emitted as free fn, self -> slf')]
        sp.replace = [(r'\bself\b', 'slf', 'self renamed to slf (free function)')]
        sp.ensures = [('sig.%s.partial_cmp' % g, P,
                       'to_id_spec(*slf) is Some && to_id_spec(*other) is Some ==> res == Some(cmp_spec(*slf, *other))')]
        vgen.emit_fn(vf, exp, base + ['PartialOrd for SigId', 'partial_cmp'], sp, label='%s::SigId::partial_cmp' % g, indent='')
        # lemmas over the code's own tables
        vgen.emit_lemma(vf, 'sig.%s.bijection' % g, P, '''proof fn lemma_bijection()
    ensures
        forall|i: u8| #![auto] to_sig_spec(i) is Some ==> to_id_spec(to_sig_spec(i)->Some_0) == Some(i),
        forall|s: SigId| #![auto] to_id_spec(s) is Some ==> to_sig_spec(to_id_spec(s)->Some_0) == Some(s),
{}''')
        vgen.emit_lemma(vf, 'sig.%s.positions_2_to_32' % g, P, '''proof fn lemma_range()
    ensures
        forall|i: u8| #![auto] to_sig_spec(i) is Some ==> 2 <= i <= 32,
        forall|s: SigId| #![auto] to_id_spec(s) is Some ==> 2 <= to_id_spec(s)->Some_0 <= 32,
{}''')
        vgen.emit_lemma(vf, 'sig.%s.total_order' % g, P, '''proof fn lemma_total_order(a: SigId, b: SigId, c: SigId)
    ensures
        cmp_spec(a, a) == Ordering::Equal,
        cmp_spec(a, b) == Ordering::Equal ==> a == b,
        (cmp_spec(a, b) == Ordering::Less) == (cmp_spec(b, a) == Ordering::Greater),
        (cmp_spec(a, b) == Ordering::Equal) == (cmp_spec(b, a) == Ordering::Equal),
        cmp_spec(a, b) == Ordering::Less && cmp_spec(b, c) == Ordering::Less ==> cmp_spec(a, c) == Ordering::Less,
        // recognised before unrecognised, recognised by position
        to_id_spec(a) is Some && to_id_spec(b) is None ==> cmp_spec(a, b) == Ordering::Less,
        to_id_spec(a) is Some && to_id_spec(b) is Some ==>
            cmp_spec(a, b) == ord3(to_id_spec(a)->Some_0 as int, to_id_spec(b)->Some_0 as int),
{}''')
        ref = REFERENCE.get(g)
        if ref:
            ens = ',\n        '.join("to_id_spec(SigId(%d, '%s')) == Some(%du8)" % (b, a, i) for (i, b, a) in ref)
            vgen.emit_lemma(vf, 'sig.%s.standard_positions' % g, P,
                            'proof fn lemma_standard_positions()\n    ensures\n        %s,\n{}' % ens)
        vf.emit('}')
    vf.emit('} // verus!\nfn main() {}')
