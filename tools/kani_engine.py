"""Engine K: Kani on the real crate.  The working tree is copied to scratch, the harness file (generated
under scratch from /verif/kani templates + the inventory of the expanded source) is compiled *inside* the
crate through the cfg(kani) hook, and `cargo kani` runs the selected harnesses."""
import os
import re
import shutil
import subprocess
import time

import common
from rsx import ToolLimit

_copy = None


def repo_copy():
    global _copy
    if _copy is None:
        dst = os.path.join(common.scratch(), 'repo-kani')
        shutil.copytree(common.REPO, dst, ignore=shutil.ignore_patterns('target', '.git', '*.orig'))
        os.makedirs(os.path.join(dst, '.cargo'), exist_ok=True)
        with open(os.path.join(dst, '.cargo', 'config.toml'), 'w') as f:
            f.write('[net]\noffline = true\n')
        _copy = dst
    return _copy


RES_RE = re.compile(r'^VERIFICATION:- (SUCCESSFUL|FAILED)', re.M)


def run_kani(harness_text, harnesses, features='all_msgs', jobs=16, timeout=3600, extra=(), tag='h', unwind=None):
    """Returns dict harness -> {status: ok|failed|tool, detail, time_s}."""
    rc = repo_copy()
    hpath = os.path.join(common.scratch(), 'harness_%s.rs' % tag)
    with open(hpath, 'w') as f:
        f.write(harness_text)
    env = common.offline_env({'RTCM_VERIF_HARNESS': hpath})
    cmd = ['cargo', 'kani', '--no-default-features', '--features', features, '-Z', 'function-contracts', '-Z', 'stubbing',
           '--output-format', 'terse', '-j', str(jobs), '--target-dir', os.path.join(common.scratch(), 'kani-target')]
    for h in harnesses:
        cmd += ['--harness', h]
    cmd += list(extra)
    t0 = time.time()
    try:
        p = subprocess.run(cmd, cwd=rc, capture_output=True, text=True, env=env, timeout=timeout)
        out = p.stdout + '\n' + p.stderr
        timed_out = False
    except subprocess.TimeoutExpired as e:
        out = (e.stdout or b'').decode('utf8', 'replace') + '\n' + (e.stderr or b'').decode('utf8', 'replace')
        timed_out = True
    wall = time.time() - t0
    res = {}
    # split per harness
    parts = re.split(r'(?m)^(?:Thread \d+: )?Checking harness ([\w:]+)\.\.\.', out)
    # parts: [pre, name1, body1, name2, body2...]
    for i in range(1, len(parts) - 1, 2):
        name = parts[i].split('::')[-1]
        body = parts[i + 1]
        m = RES_RE.search(body)
        tm = re.search(r'Verification Time: ([\d.]+)s', body)
        st = 'tool'
        if m:
            st = 'ok' if m.group(1) == 'SUCCESSFUL' else 'failed'
        fails = re.findall(r'(?m)^Failed Checks: (.*)$', body)
        if st == 'failed' and fails and all('unwinding assertion' in f for f in fails):
            st = 'tool'
        res[name] = {'status': st, 'detail': body.strip()[-2500:], 'time_s': float(tm.group(1)) if tm else None,
                     'failed_checks': fails}
    for h in harnesses:
        if h not in res:
            res[h] = {'status': 'tool', 'detail': ('timeout after %ds\n' % timeout if timed_out else '') + out[-3000:], 'time_s': None, 'failed_checks': []}
    return {'results': res, 'wall_s': wall, 'cmd': ' '.join(cmd).replace(common.scratch(), '<scratch>'), 'raw_tail': out[-4000:], 'timed_out': timed_out}
