"""Engine K: Kani on the real crate.  The working tree is copied to scratch, the harness file (generated
under scratch from /verif/kani templates + the inventory of the expanded source) is compiled *inside* the
crate through the cfg(kani) hook, and `cargo kani` runs the selected harnesses."""
import os
import re
import shutil
import subprocess
import time

import common
from rsx import ToolLimit

_copy = None


def repo_copy():
    global _copy
    if _copy is None:
        dst = os.path.join(common.scratch(), 'repo-kani')
        shutil.copytree(common.REPO, dst, ignore=shutil.ignore_patterns('target', '.git', '*.orig'))
        os.makedirs(os.path.join(dst, '.cargo'), exist_ok=True)
        with open(os.path.join(dst, '.cargo', 'config.toml'), 'w') as f:
            f.write('[net]\noffline = true\n')
        _copy = dst
    return _copy


RES_RE = re.compile(r'^VERIFICATION:- (SUCCESSFUL|FAILED)', re.M)


def run_kani(harness_text, harnesses, features='all_msgs', jobs=16, timeout=3600, extra=(), tag='h', unwind=None, cfgs=()):
    """Returns dict harness -> {status: ok|failed|tool, detail, time_s}."""
    rc = repo_copy()
    hpath = os.path.join(common.scratch(), 'harness_%s.rs' % tag)
    with open(hpath, 'w') as f:
        f.write(harness_text)
    envx = {'RTCM_VERIF_HARNESS': hpath}
    if cfgs:
        envx['RUSTFLAGS'] = ' '.join('--cfg %s' % c for c in cfgs)      # extra guards (the in-place contracts are behind cfg(all(kani, rtcm_rs_verif_contracts)))
    env = common.offline_env(envx)
    cmd = ['cargo', 'kani', '--no-default-features', '--features', features, '-Z', 'function-contracts', '-Z', 'stubbing',
           '--output-format', 'terse', '-j', str(jobs), '--target-dir', os.path.join(common.scratch(), 'kani-target' + ('-' + '-'.join(cfgs) if cfgs else ''))]
    for h in harnesses:
        cmd += ['--harness', h]
    cmd += list(extra)
    t0 = time.time()
    import signal
    proc = subprocess.Popen(cmd, cwd=rc, stdout=subprocess.PIPE, stderr=subprocess.PIPE, text=True, env=env, start_new_session=True)
    try:
        so, se = proc.communicate(timeout=timeout)
        out = so + '\n' + se
        timed_out = False
    except subprocess.TimeoutExpired:
        try:
            os.killpg(proc.pid, signal.SIGKILL)     # cargo-kani, kani-driver and every cbmc child
        except Exception:
            pass
        so, se = proc.communicate()
        out = (so or '') + '\n' + (se or '')
        timed_out = True
    wall = time.time() - t0
    res = {}
    # With -j the output is interleaved per worker: "Thread N: Checking harness X..." announces the harness a
    # worker runs next, and its result block follows later as "Thread N: \nVERIFICATION RESULT ... Verification Time".
    cur = {}
    blocks = []   # (harness, text)
    lines = out.split('\n')
    i = 0
    active = None
    buf = []
    for ln in lines:
        m = re.match(r'^(?:Thread (\d+): )?Checking harness ([\w:]+)\.\.\.', ln)
        if m:
            cur[m.group(1) or '0'] = m.group(2).split('::')[-1]
            if m.group(1) is None:
                if active is not None:
                    blocks.append((active, '\n'.join(buf)))
                active, buf = cur['0'], []
            continue
        m = re.match(r'^Thread (\d+): ?$', ln)
        if m:
            if active is not None:
                blocks.append((active, '\n'.join(buf)))
            active, buf = cur.get(m.group(1)), []
            continue
        if active is not None:
            buf.append(ln)
            if ln.startswith('Verification Time:'):
                blocks.append((active, '\n'.join(buf)))
                active, buf = None, []
    if active is not None:
        blocks.append((active, '\n'.join(buf)))
    for name, body in blocks:
        m = RES_RE.search(body)
        if not m:
            continue
        tm = re.search(r'Verification Time: ([\d.]+)s', body)
        st = 'ok' if m.group(1) == 'SUCCESSFUL' else 'failed'
        fails = re.findall(r'(?m)^Failed Checks: (.*)$', body)
        located = [{'desc': d, 'file': f, 'line': int(l)} for (d, f, l) in re.findall(r'(?m)^Failed Checks: (.*)\n\s*File: "([^"]+)", line (\d+)', body)]
        if st == 'failed' and fails and all('unwinding assertion' in f for f in fails):
            st = 'tool'
        if st == 'failed' and not fails and ('CBMC failed' in body or 'out of memory' in body or 'CBMC timed out' in body):
            st = 'tool'     # the back end died (memory / time): undecided, never an alarm
        covers = re.search(r'(\d+) of (\d+) cover properties satisfied', body)
        res[name] = {'status': st, 'detail': body.strip()[-2500:], 'time_s': float(tm.group(1)) if tm else None,
                     'failed_checks': fails, 'located': located, 'covers': (int(covers.group(1)), int(covers.group(2))) if covers else None}
    for h in harnesses:
        if h not in res:
            res[h] = {'located': [], 'status': 'tool', 'detail': ('timeout after %ds\n' % timeout if timed_out else '') + out[-3000:], 'time_s': None, 'failed_checks': []}
    return {'results': res, 'wall_s': wall, 'cmd': ' '.join(cmd).replace(common.scratch(), '<scratch>'), 'raw_tail': out[-4000:], 'timed_out': timed_out}


def failed_clauses(harness_text, result, hpath_hint='harness_'):
    """Map Kani's failed checks to the clause names written as trailing `// clause.name` comments on the assert lines of the
    harness.  Checks that fail outside the harness file (overflow/panic inside the crate) are returned under '#panic'."""
    lines = harness_text.split('\n')
    out = set()
    for d in result.get('failed_checks', []):
        m = re.match(r'^"?([a-z][\w]*\.[\w.]+)"?$', d.strip())      # assert!(cond, "clause.name")
        if m:
            out.add(m.group(1))
    if out:
        if any(hpath_hint not in loc['file'] for loc in result.get('located', [])):
            out.add('#panic')
        return out
    for loc in result.get('located', []):
        if hpath_hint in loc['file']:
            ln = loc['line']
            if 1 <= ln <= len(lines):
                m = re.search(r'//\s*([A-Za-z_][\w.]*)', lines[ln - 1])
                if m:
                    out.add(m.group(1))
                    continue
            out.add('#unmapped')
        else:
            out.add('#panic')
    return out


def concrete_playback(harness_text, harness, features='all_msgs', tag='cp', timeout=900):
    """Re-run one failing harness with concrete playback to obtain the counterexample values (best effort)."""
    out = run_kani(harness_text, [harness], features=features, jobs=1, timeout=timeout, tag=tag,
                   extra=['-Z', 'concrete-playback', '--concrete-playback=print'])
    raw = out.get('raw_tail', '')
    m = re.search(r'(?s)Concrete playback unit test for.*?```\n(.*?)```', raw)
    return m.group(1)[:3000] if m else None
