"""Unit tinyvec (C15, C10, C02): Kani on the real tinyvec::ArrayVec code and on the crate's wrapper util::DataVec.  The Verus unit `l2`
assumes the ArrayVec interface (contracts/l2_prelude.vt); this unit checks those clauses on the compiled dependency for the
instantiation [u16; 4] (the code is generic in element type and capacity; that step is not mechanised)."""
import os
import re
import common
import kani_engine
from vgen import Oblig

FN_TV = 'tinyvec::ArrayVec::{new, len, capacity, push, as_slice, deref, deref_mut, set_len} (dependency, as resolved by Cargo.lock)'
FN_DV = 'util::DataVec::{new, len, capacity, push, clone, as_slice, as_mut_slice, set_len}'
SCOPE = 'every reachable vector of [u16; 4] (fill level 0..=4, contents symbolic); bounded in element type and capacity'
PROPS = {'C15', 'C10', 'C02'}


def run(tier, seed):
    from units import UnitResult
    ur = UnitResult('tinyvec', 'kani-cbmc-cadical')
    text = open(os.path.join(common.VERIF, 'kani', 'tinyvec.rs')).read()
    hs = re.findall(r'#\[kani::proof\]\n(?:#\[kani::unwind\(\d+\)\]\n)?fn (\w+)', text)
    body = {h: text[text.index('fn %s(' % h):] for h in hs}
    helper = re.findall(r'"((?:tinyvec|datavec)\.[\w.]+)"', text[text.index('fn any_av'):text.index('#[kani::proof]')])
    out = kani_engine.run_kani(text, hs, features='std', tag='tinyvec', timeout=900, jobs=8)
    ur.cmds.append(out['cmd'])
    ur.wall_s = out['wall_s']
    for h in hs:
        b = body[h]
        nxt = b.find('#[kani::proof]')
        b = b if nxt < 0 else b[:nxt]
        clauses = [c for c in re.findall(r'"((?:tinyvec|datavec)\.[\w.]+)"', b) if '.reach.' not in c]
        if h == 'tinyvec_observers_agree_with_view':
            clauses += helper
        r = out['results'][h]
        ur.solver_s += r['time_s'] or 0
        if r['status'] == 'tool':
            ur.tool_errors.append('tinyvec harness %s: %s' % (h, r['detail'][-1200:]))
            continue
        if r.get('covers') and r['covers'][0] != r['covers'][1]:
            ur.tool_errors.append('tinyvec harness %s: VACUITY cover not satisfied (%d of %d)' % (h, r['covers'][0], r['covers'][1]))
        hit = kani_engine.failed_clauses(text, r) if r['status'] == 'failed' else set()
        for cl in clauses:
            ob = Oblig(cl, PROPS, 'kani-assert', FN_DV if cl.startswith('datavec.') else FN_TV, '%s: %s' % (h, SCOPE))
            if r['status'] == 'failed' and (cl in hit or not (hit & set(clauses))):
                ob.failed = [r['detail'][-1500:]]
            ur.obligs.append(ob)
    ur.bounded.append('unit tinyvec: instantiation [u16; 4] stands for every element type and capacity (generic code; not mechanised)')
    ur.functions = [{'name': FN_TV, 'lo': 0, 'hi': 0, 'origin': 'compiled dependency (Kani)', 'path': 'tinyvec', 'n_requires': 2, 'n_ensures': 14, 'n_loops': 0},
                    {'name': FN_DV, 'lo': 0, 'hi': 0, 'origin': 'compiled crate (Kani)', 'path': 'src/util/data_vec.rs', 'n_requires': 0, 'n_ensures': 8, 'n_loops': 0}]
    ur.trusted += ['tinyvec ArrayVec / DataVec: the [u16; 4] instantiation stands for all element types and capacities (generic code)']
    return ur
