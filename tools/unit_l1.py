"""Units l1int / l1enc (C08 integer part, C09/C02 at L1): Kani complete harnesses on the real dfNNN::{decode,encode}."""
import re

import common
import dfinv
import kani_engine
from vgen import Oblig
from rsx import ToolLimit

HEAD = '''// Engine K, L1 data-field harnesses (generated from the inventory of the expanded source).
use crate::df::assembler::Assembler;
use crate::df::parser::Parser;
use crate::rtcm_error::RtcmError;
#[inline(always)]
fn bit_at(data: &[u8], k: usize) -> u8 { (data[k / 8] >> (7 - (k % 8))) & 1 }
'''


def carve_for(f):
    """Known findings carve exactly the listed input class out of the obligation (never more)."""
    out = []
    for k in common.load_known().get('findings', []):
        if k.get('obligation') == 'df.%s.enc.total_no_panic_any_value' % f.name and k.get('carve'):
            out.append('kani::assume(%s); // known finding %s' % (k['carve'], k.get('key')))
    return '\n    '.join(out)


def int_harness(f):
    B = (f.len + 7) // 8 + 1
    inv_part = ''
    if f.optional:
        inv_part = '''
    // exactly one pattern decodes to 'absent', and 'absent' encodes to it
    let none: F::DataType = None;
    let mut o3 = [0u8; %d];
    let mut a3 = Assembler::new(&mut o3, 0);
    assert!(F::encode(&mut a3, &none).is_ok());
    let is_inv_pattern = bit_at(&o3, k) == bit_at(&data, k);   // (for the symbolic k: all bits, see below)
''' % B
    return '''
#[kani::proof]
#[kani::unwind(%(unw)d)]
fn f_%(name)s() {
    use crate::df::dfs::%(name)s as F;
    const LEN: usize = %(len)d;
    let data: [u8; %(B)d] = kani::any();
    let mut par = Parser::new(&data, 0);
    let r = F::decode(&mut par);
    assert!(r.is_ok());                         // dec.total
    assert!(par.offset() == LEN);               // dec.width
    if let Ok(v) = r {
        let mut out = [0u8; %(B)d];
        let (e, off) = { let mut asm = Assembler::new(&mut out, 0); let e = F::encode(&mut asm, &v); (e, asm.offset()) };
        assert!(e.is_ok());                     // enc.accepts_decoded
        assert!(off == LEN);                    // enc.width
        let k: usize = kani::any();
        kani::assume(k < LEN);
        assert!(bit_at(&out, k) == bit_at(&data, k));   // lossless: encode(decode(p)) == p
        %(optcheck)s
    }
    // encoding is total: any value of the field's type, no panic, and only the documented error
    let x: F::DataType = kani::any();
    %(carve)s
    let mut o2 = [0u8; %(B)d];
    let (e2, off2) = { let mut a2 = Assembler::new(&mut o2, 0); let e2 = F::encode(&mut a2, &x); (e2, a2.offset()) };
    match e2 {
        Ok(()) => assert!(off2 == LEN),         // enc.total_width
        Err(RtcmError::OutOfRange) => assert!(off2 == 0),
        Err(_) => assert!(false),               // enc.total_errors
    }
    kani::cover!(true, "end reachable");
}
''' % {'name': f.name, 'len': f.len, 'B': B, 'unw': min(B, f.bits // 8 + 1) + 1,
       'carve': carve_for(f),
       'optcheck': ('''// optional field: absent <=> the invalid pattern; the pattern of None is the same pattern
        if v.is_none() {
            let mut o3 = [0u8; %d];
            { let mut a3 = Assembler::new(&mut o3, 0); let none: F::DataType = None; assert!(F::encode(&mut a3, &none).is_ok()); }
            assert!(bit_at(&o3, k) == bit_at(&data, k));  // opt.absent_is_one_pattern
        }''' % B) if f.optional else ''}


def float_enc_harness(f):
    B = (f.len + 7) // 8 + 1
    return '''
#[kani::proof]
#[kani::unwind(%(unw)d)]
fn e_%(name)s() {
    use crate::df::dfs::%(name)s as F;
    const LEN: usize = %(len)d;
    let x: F::DataType = kani::any();           // every bit pattern of the value type: NaN, +-inf, out of range, None
    %(carve)s
    let mut o2 = [0u8; %(B)d];
    let (e2, off2) = { let mut a2 = Assembler::new(&mut o2, 0); let e2 = F::encode(&mut a2, &x); (e2, a2.offset()) };
    match e2 {
        Ok(()) => assert!(off2 == LEN),
        Err(RtcmError::OutOfRange) => assert!(off2 == 0),
        Err(_) => assert!(false),
    }
    // decoding is total, and decoded values are finite
    let data: [u8; %(B)d] = kani::any();
    let mut par = Parser::new(&data, 0);
    let r = F::decode(&mut par);
    assert!(r.is_ok());
    assert!(par.offset() == LEN);
    kani::cover!(true, "end reachable");
}
''' % {'name': f.name, 'len': f.len, 'B': B, 'unw': min(B, f.bits // 8 + 1) + 1, 'carve': carve_for(f)}


INT_CLAUSES = ['dec.total_no_panic', 'dec.width', 'enc.accepts_decoded', 'enc.width', 'lossless.encode_decode_is_identity_on_patterns',
               'enc.total_no_panic_any_value']
FLOAT_ENC_CLAUSES = ['enc.total_no_panic_any_value', 'dec.total_no_panic', 'dec.width']


def run_int(tier, seed):
    from units import UnitResult
    ur = UnitResult('l1int', 'kani-cbmc-cadical')
    fs, _ = dfinv.fields()
    ints = [f for f in fs if not f.is_float]
    text = HEAD + ''.join(int_harness(f) for f in ints)
    names = ['f_' + f.name for f in ints]
    out = kani_engine.run_kani(text, names, tag='l1int', timeout=3000)
    out['harness_text'] = text
    ur.cmds.append(out['cmd'])
    ur.wall_s = out['wall_s']
    collect(ur, out, ints, 'f_', INT_CLAUSES + ['opt.absent_is_one_pattern'], {'C08', 'C01', 'C09', 'C02'})
    return ur


def collect(ur, out, fields, prefix, clauses, props):
    for f in fields:
        r = out['results'][prefix + f.name]
        ur.solver_s += r['time_s'] or 0
        if r['status'] == 'tool':
            ur.tool_errors.append('%s harness %s%s: %s' % (ur.name, prefix, f.name, r['detail'][-1500:]))
            continue
        if r.get('covers') and r['covers'][0] != r['covers'][1]:
            ur.tool_errors.append('%s harness %s%s: cover not satisfied (vacuous harness)' % (ur.name, prefix, f.name))
        for cl in clauses:
            if cl.startswith('opt.') and not f.optional:
                continue
            ob = Oblig('df.%s.%s' % (f.name, cl), props, 'kani-assert', 'df::dfs::%s::{decode,encode}' % f.name, cl)
            if r['status'] == 'failed':
                ob.failed = [r['detail'][-1800:]]
                ob.counterexample = None
            ur.obligs.append(ob)
        if r['status'] == 'failed':
            # concrete values for the replay file (best effort)
            try:
                cex = kani_engine.concrete_playback(out['harness_text'], prefix + f.name, tag='l1cp') if out.get('harness_text') else None
            except Exception:
                cex = None
            if cex:
                for ob in ur.obligs:
                    if ob.failed and ob.id.startswith('df.%s.' % f.name):
                        ob.counterexample = {'kani_concrete_playback': cex, 'harness': prefix + f.name}
        ur.functions.append({'name': 'df::dfs::%s::{decode,encode}' % f.name, 'lo': 0, 'hi': 0, 'origin': 'compiled crate (Kani)',
                             'path': 'df::dfs::' + f.name, 'n_requires': 0, 'n_ensures': len(clauses), 'n_loops': 0})
    ur.trusted += ['Kani 0.68 + CBMC 6.11 + CaDiCaL; rustc MIR semantics as modelled by Kani (overflow checks on)']


def run_enc(tier, seed):
    """Float-typed fields: encode(any bit pattern of the value type) and decode(any pattern) never panic (overflow checks on)."""
    from units import UnitResult
    ur = UnitResult('l1enc', 'kani-cbmc-cadical')
    fs, _ = dfinv.fields()
    fl = [f for f in fs if f.is_float]
    text = HEAD + ''.join(float_enc_harness(f) for f in fl)
    names = ['e_' + f.name for f in fl]
    out = kani_engine.run_kani(text, names, tag='l1enc', timeout=3000)
    out['harness_text'] = text
    ur.cmds.append(out['cmd'])
    ur.wall_s = out['wall_s']
    collect(ur, out, fl, 'e_', FLOAT_ENC_CLAUSES, {'C09', 'C02'})
    return ur


def float_lossless_harness(f):
    """bit-precise twin of the S-engine obligation df.<name>.lossless (thorough tier): every w-bit pattern decodes and re-encodes to itself"""
    B = (f.len + 7) // 8 + 1
    smexc = ''
    if f.kind == 'sm':
        # the redundant negative-zero pattern (sign bit only) normalises to +0: the only admissible difference
        smexc = 'let negzero = bit_at(&data, 0) == 1 && { let mut z = true; let mut j = 1; while j < LEN { if bit_at(&data, j) == 1 { z = false; } j += 1; } z };\n        if negzero { assert!(bit_at(&out, k) == 0); } else'
    return '''
#[kani::proof]
#[kani::unwind(%(unw)d)]
fn fl_%(name)s() {
    use crate::df::dfs::%(name)s as F;
    const LEN: usize = %(len)d;
    let data: [u8; %(B)d] = kani::any();
    let mut par = Parser::new(&data, 0);
    let r = F::decode(&mut par);
    assert!(r.is_ok());
    if let Ok(v) = r {
        let mut out = [0u8; %(B)d];
        let (e, off) = { let mut asm = Assembler::new(&mut out, 0); let e = F::encode(&mut asm, &v); (e, asm.offset()) };
        assert!(e.is_ok());
        assert!(off == LEN);
        let k: usize = kani::any();
        kani::assume(k < LEN);
        %(smexc)s { assert!(bit_at(&out, k) == bit_at(&data, k)); }
    }
}
''' % {'name': f.name, 'len': f.len, 'B': B, 'unw': max(min(B, f.bits // 8 + 1) + 1, f.len + 2 if f.kind == 'sm' else 0), 'smexc': smexc}


def run_float(tier, seed):
    """thorough tier only: Kani bit-precise lossless check of every float field that CBMC finishes within the per-harness budget"""
    from units import UnitResult
    ur = UnitResult('l1float', 'kani-cbmc-cadical')
    fs, _ = dfinv.fields()
    fl = [f for f in fs if f.is_float]
    text = HEAD + ''.join(float_lossless_harness(f) for f in fl)
    names = ['fl_' + f.name for f in fl]
    budget = 240
    out = kani_engine.run_kani(text, names, tag='l1float', timeout=budget * (len(fl) // 12 + 4), extra=['-Z', 'unstable-options', '--harness-timeout', '%ds' % budget])
    ur.cmds.append(out['cmd'])
    ur.wall_s = out['wall_s']
    reached, skipped = 0, []
    for f in fl:
        r = out['results']['fl_' + f.name]
        ur.solver_s += r['time_s'] or 0
        asserted = r['status'] == 'failed' and any('assertion failed' in c for c in r['failed_checks'])
        if r['status'] == 'ok' or asserted:
            ob = Oblig('df.%s.lossless.bit_precise' % f.name, {'C08', 'C01'}, 'kani-assert', 'df::dfs::%s::{decode,encode}' % f.name, 'encode(decode(p)) == p for all %d-bit patterns (CBMC float semantics)' % f.len)
            if asserted:
                ob.failed = [r['detail'][-1500:]]
            ur.obligs.append(ob)
            reached += 1
        else:
            skipped.append('%s(%s,%d bits)' % (f.name, f.dt, f.len))
    ur.bounded.append('l1float: %d of %d float fields proved bit-precisely by CBMC within %d s each; not reached (S engine only): %s' % (reached, len(fl), budget, ', '.join(skipped[:80])))
    ur.trusted += ["Kani/CBMC's IEEE-754 encoding of f32/f64 arithmetic"]
    return ur
