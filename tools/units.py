"""Verification units.  A unit is one verifier run (or a batch of runs of one kind) over text that is
regenerated from /repo's current working tree.  Each unit returns a UnitResult whose obligations
are tagged with the properties that depend on them; a property check is the union of its units."""
import os
import re
import time

import common
import vgen
from rsx import ToolLimit

VERIF = common.VERIF


class UnitResult:
    def __init__(self, name, backend):
        self.name = name
        self.backend = backend
        self.obligs = []
        self.tool_errors = []
        self.functions = []
        self.rewrites = []
        self.trusted = []
        self.bounded = []
        self.assumptions = []
        self.cmds = []
        self.wall_s = 0.0
        self.solver_s = 0.0
        self.canaries = 0
        self.canaries_ok = 0
        self.artifacts = {}


def run_verus_unit(name, template, canary=True, rlimit=None, builder=None):
    """template: path of a .vt file (relative to /verif/contracts), or builder(vf, sources) callable."""
    ur = UnitResult(name, 'verus-z3')
    t0 = time.time()
    work = os.path.join(common.scratch(), 'verus')

    def build(canary_mode):
        vf = vgen.VFile(name + ('_canary' if canary_mode else ''))
        vf.canary = canary_mode
        srcs = common.SourceMap()
        if builder is not None:
            builder(vf, srcs)
        else:
            vgen.process_template(vf, os.path.join(VERIF, 'contracts', template), srcs)
        return vf
    vf = build(False)
    res = vgen.run_verus(vf, work, rlimit=rlimit)
    ur.cmds.append(res['cmd'].replace(work, '<scratch>'))
    status, tool = vgen.attribute(vf, res)
    ur.tool_errors += ['%s: %s' % (name, t) for t in tool]
    ur.obligs = vf.obligs
    ur.functions = vf.funcs
    ur.rewrites = vf.rewrites
    ur.trusted = vgen.scan_trusted(vf)
    ur.artifacts['verus_file'] = res['path']
    ur.artifacts['vfile'] = vf
    ur.artifacts['stderr'] = res['stderr']
    times = vgen.smt_times(res)
    ur.solver_s = sum(times.values()) / 1000.0
    ur.artifacts['smt_ms'] = times
    if res['json']:
        ur.artifacts['verus_version'] = res['json'].get('verus', {}).get('version')
        ur.artifacts['verified_count'] = res['json'].get('verification-results', {}).get('verified')
    if canary and not ur.tool_errors:
        cf = build(True)
        cres = vgen.run_verus(cf, work, rlimit=rlimit)
        cst, ctool = vgen.attribute(cf, cres)
        # tool errors in canary mode other than proof failures are still tool errors
        cans = [o for o in cf.obligs if o.kind == 'canary']
        if cst == 'tool':
            for t in ctool:
                m = re.search(r'rlimit.*@(\d+)', t)
                hit = False
                if m:
                    ln = int(m.group(1))
                    for o in cans:
                        fl = getattr(o, 'fn_lines', None) or o.lines
                        if fl and fl[0] <= ln <= fl[1]:
                            o.failed.append('resource limit while trying to prove `false` (not provable within the limit)')
                            hit = True
                if not hit and 'without attributable diagnostic' not in t:
                    ur.tool_errors.append('%s(canary): %s' % (name, t))
        ur.canaries = len(cans)
        ur.canaries_ok = sum(1 for o in cans if o.failed)
        for o in cans:
            if not o.failed:
                ur.tool_errors.append('%s: VACUITY canary `ensures false` verified for %s (contradictory precondition or unreachable end of body)' % (name, o.func))
    ur.wall_s = time.time() - t0
    return ur


# ---------------------------------------------------------------------------------------------
def unit_frame(tier, seed):
    return run_verus_unit('frame', 'frame.vt')


def unit_crc(tier, seed):
    return run_verus_unit('crc', 'crc.vt')


def unit_sigtab(tier, seed):
    import unit_sigtab
    return run_verus_unit('sigtab', None, builder=unit_sigtab.build)


def unit_l0bits(tier, seed):
    import unit_l0bits
    # the 1023-byte window (every buffer the crate can build, ~40 min) is the thorough tier of C07, the property that is about the bit
    # codec; the other properties use the L0 contract as a lemma and re-establish it with the quick window in both tiers
    if tier == 'thorough' and os.environ.get('RTCM_VERIF_PROPERTY') not in (None, '', 'C07'):
        tier = 'quick'
    return unit_l0bits.run(tier, seed)


def unit_l1int(tier, seed):
    import unit_l1
    return unit_l1.run_int(tier, seed)


def unit_l1enc(tier, seed):
    import unit_l1
    return unit_l1.run_enc(tier, seed)


UNITS = {}
def unit_l1float(tier, seed):
    import unit_l1
    return unit_l1.run_float(tier, seed)


def unit_l0contract(tier, seed):
    import unit_l0contract
    return unit_l0contract.run(tier, seed)


UNITS['l0contract'] = unit_l0contract


def unit_crcstep(tier, seed):
    import unit_crcstep
    return unit_crcstep.run(tier, seed)


UNITS['crcstep'] = unit_crcstep


def unit_tinyvec(tier, seed):
    import unit_tinyvec
    return unit_tinyvec.run(tier, seed)


UNITS['tinyvec'] = unit_tinyvec


def unit_coredeps(tier, seed):
    import unit_coredeps
    return unit_coredeps.run(tier, seed)


UNITS['coredeps'] = unit_coredeps
UNITS['l1float'] = unit_l1float
UNITS['l1int'] = unit_l1int
UNITS['l1enc'] = unit_l1enc
UNITS['frame'] = unit_frame
UNITS['crc'] = unit_crc
UNITS['sigtab'] = unit_sigtab
UNITS['l0bits'] = unit_l0bits


def unit_dfvc(tier, seed):
    import dfvc
    return dfvc.run(tier, seed)


UNITS['dfvc'] = unit_dfvc


def unit_l2(tier, seed):
    import unit_l2
    # vacuity canaries (every contracted function re-emitted with `ensures false`, which must fail) double the run:
    # thorough tier only; the quick tier relies on the per-leaf reachability covers of units l0bits/l1int and on the canaries of
    # the smaller units
    return run_verus_unit('l2', None, builder=unit_l2.build, canary=(tier == 'thorough'))


UNITS['l2'] = unit_l2


def unit_msgl3(tier, seed):
    import unit_msgl3
    return run_verus_unit('msgl3', None, builder=unit_msgl3.build, canary=True)


UNITS['msgl3'] = unit_msgl3


def unit_bs_msmrows(tier, seed):
    import unit_standin
    return unit_standin.run('msm_rows', ['msmperm'], {'C10', 'C01'},
                            'whole MSM message through builder and decoder under random permutations of the caller\'s satellite and cell lists: same frame as the sorted input, same sets back (end-to-end stand-in next to the fragment-level contracts of unit l2)',
                            tier, seed, 6000, 100000)


def unit_bs_msgs(tier, seed):
    import unit_standin
    return unit_standin.run('messages', ['msgs'], {'C01', 'C02', 'C09', 'C16', 'C10', 'C17'},
                            'whole-message decode/encode fixed point, panic-freedom and truncation on hostile payloads of every message number (end-to-end stand-in; the only cover for 1029 text, 16-point grids and the message-level composition of MSM and bias-list fragments)',
                            tier, seed, 40000, 1500000)


def unit_text(tier, seed):
    import unit_text
    return unit_text.run(tier, seed)


def unit_bs_text(tier, seed):
    import unit_standin
    return unit_standin.run('text', ['text'], {'C17', 'C20'},
                            'From<&str>/FromIterator for all capacities, message 1029 text (127 chars / 255 bytes limits, invalid UTF-8 => Corrupt), descriptor round trip through messages',
                            tier, seed, 20000, 300000)


def unit_bs_bias(tier, seed):
    import unit_standin
    return unit_standin.run('bias_lists', ['bias'], {'C16', 'C01'},
                            '1059/1065/1230 through builder and decoder: same multiset of entries, grouped by ascending satellite, or an error (end-to-end stand-in next to the encoder/decoder contracts and inverse lemmas of unit l2)',
                            tier, seed, 3000, 60000)


UNITS['bs_bias'] = unit_bs_bias
def unit_features(tier, seed):
    import unit_features
    return unit_features.run(tier, seed)


UNITS['features'] = unit_features
UNITS['text'] = unit_text
UNITS['bs_text'] = unit_bs_text
UNITS['bs_msmrows'] = unit_bs_msmrows
UNITS['bs_msgs'] = unit_bs_msgs

# property -> units that carry obligations tagged with it
PROPERTY_UNITS = {}
PROPERTY_UNITS['C03'] = ['frame', 'crcstep']
PROPERTY_UNITS['C04'] = ['crc', 'frame', 'crcstep']
PROPERTY_UNITS['C05'] = ['frame']
PROPERTY_UNITS['C06'] = ['frame']
PROPERTY_UNITS['C13'] = ['frame']
PROPERTY_UNITS['C18'] = ['sigtab', 'coredeps']
PROPERTY_UNITS['C07'] = ['l0bits']
PROPERTY_UNITS['C08'] = ['dfvc', 'l1int', 'l0bits']
PROPERTY_UNITS['C11'] = ['dfvc']
PROPERTY_UNITS['C15'] = ['l2', 'msgl3', 'l1int', 'l0bits', 'tinyvec']
PROPERTY_UNITS['C14'] = ['msgl3', 'frame']
PROPERTY_UNITS['C12'] = ['msgl3', 'l0bits']
PROPERTY_UNITS['C09'] = ['msgl3', 'l2', 'l1int', 'l1enc', 'bs_msgs', 'l0bits']
PROPERTY_UNITS['C16'] = ['l2', 'dfvc', 'bs_bias', 'bs_msgs', 'l0bits']
PROPERTY_UNITS['C01'] = ['msgl3', 'frame', 'l2', 'dfvc', 'l1int', 'text', 'bs_msgs', 'bs_msmrows', 'bs_bias', 'l0bits']
PROPERTY_UNITS['C19'] = ['features', 'msgl3']
PROPERTY_UNITS['C17'] = ['text', 'bs_text', 'l2', 'l0bits']
PROPERTY_UNITS['C10'] = ['l2', 'sigtab', 'bs_msmrows', 'bs_msgs', 'l0bits', 'tinyvec']
PROPERTY_UNITS['C02'] = ['frame', 'msgl3', 'l2', 'l1int', 'l1enc', 'bs_msgs', 'l0bits', 'tinyvec']

# units that run only in the thorough tier
THOROUGH_EXTRA = {'C08': ['l1float'], 'C01': ['l1float'], 'C07': ['l0contract']}

PROPERTY_LEVEL = {'C07': 'other', 'C19': 'other'}
PROPERTY_EXPLANATION = {'C19': 'Configuration sweep: for the empty selection and each single message feature the crate is type-checked without std, the expanded dispatch is checked to name only its own number, and the expanded decoder text is compared with the all_msgs expansion that the deductive units verify; plus the Verus obligations of unit msgl3 on the feature set.', 'C07': 'Kani/CBMC harnesses complete over values x widths x bit offsets x buffer contents for every carrier type; buffer length symbolic up to the window listed in bounded_stand_ins (bounded in that one dimension).'}
