"""Bounded stand-ins: for code the deductive verifiers cannot ingest, a bounded native search of the REAL code against an
executable transcription of the property (the replay binary) is run on every check.  Always labelled bounded; never
counted as proved.  A hit is a concrete failing input, re-run against the real code before it is reported."""
import time

import replay_search
from vgen import Oblig


def run(name, kinds, props, what, tier, seed, budget_quick=20000, budget_thorough=400000):
    from units import UnitResult
    ur = UnitResult(name, 'bounded-native-search')
    t0 = time.time()
    budget = budget_quick if tier == 'quick' else budget_thorough
    for k in kinds:
        ob = Oblig('bounded.%s.%s' % (name, k), props, 'bounded', what, 'bounded native search kind=%s budget=%d seed=%d' % (k, budget, seed))
        try:
            hit, evals = replay_search.run_search([k], seed, budget)
        except Exception as e:
            ur.tool_errors.append('%s: replay search unavailable: %s' % (name, str(e)[-800:]))
            continue
        ob.evaluations = evals
        if hit:
            ob.failed = ['bounded search found a failing input: ' + str(hit.get('observed'))]
            ob.counterexample = hit
        ur.obligs.append(ob)
        ur.bounded.append('%s: kind=%s, %s inputs explored, seed %d (BOUNDED stand-in for: %s)' % (name, k, evals if not hit else 'n/a', seed, what))
    ur.wall_s = time.time() - t0
    ur.cmds.append('replay search <%s> %d %d   (native binary built from /verif/replay against the current tree, overflow checks on)' % ('|'.join(kinds), seed, budget))
    ur.functions.append({'name': what, 'lo': 0, 'hi': 0, 'origin': 'compiled crate (native)', 'path': what, 'n_requires': 0, 'n_ensures': 0, 'n_loops': 0})
    return ur
