//! Executable transcription of the L3 contracts (frame acceptance, scanner) used only to *find and
//! replay* concrete failing inputs for obligations the verifier reported as failed.  It decides nothing.
use rtcm_rs::prelude::*;

pub fn crc24q(d: &[u8]) -> u32 {
    let mut c: u32 = 0;
    for b in d {
        for k in 0..8 {
            let bit = ((b >> (7 - k)) & 1) as u32;
            let top = (c >> 23) & 1;
            c = (c << 1) & 0xFF_FFFF;
            if top != bit {
                c ^= 0x864CFB;
            }
        }
    }
    c
}

#[derive(Debug, PartialEq, Clone, Copy)]
pub enum St { Short, BadPreamble, Incomplete, BadCrc, Valid }

pub fn len_field(s: &[u8]) -> usize { ((s[1] as usize) % 4) * 256 + s[2] as usize }

pub fn status(s: &[u8]) -> St {
    if s.len() < 6 { return St::Short; }
    if s[0] != 0xd3 { return St::BadPreamble; }
    let l = len_field(s);
    if s.len() < l + 6 { return St::Incomplete; }
    let c = ((s[l + 3] as u32) << 16) | ((s[l + 4] as u32) << 8) | s[l + 5] as u32;
    if c != crc24q(&s[..l + 3]) { St::BadCrc } else { St::Valid }
}

/// (consumed, Some((start,len)))
pub fn scan(s: &[u8]) -> (usize, Option<(usize, usize)>) {
    let mut i = 0;
    while i < s.len() {
        if s[i] == 0xd3 {
            match status(&s[i..]) {
                St::Valid => { let l = len_field(&s[i..]) + 6; return (i + l, Some((i, l))); }
                St::Short | St::Incomplete => return (i, None),
                _ => {}
            }
        }
        i += 1;
    }
    (s.len(), None)
}

pub fn make_frame(payload: &[u8], reserved: u8) -> Vec<u8> {
    let l = payload.len();
    let mut f = vec![0xd3, ((reserved & 0x3f) << 2) | ((l >> 8) as u8 & 3), (l & 0xff) as u8];
    f.extend_from_slice(payload);
    let c = crc24q(&f);
    f.extend_from_slice(&[(c >> 16) as u8, (c >> 8) as u8, c as u8]);
    f
}

/// Compare MessageFrame::new on `s` with the contract. Returns a description of the first disagreement.
pub fn check_new(s: &[u8]) -> Option<String> {
    let r = std::panic::catch_unwind(|| {
        match MessageFrame::new(s) {
            Ok(f) => Ok((f.frame_len(), f.data_len(), f.data().to_vec(), f.frame_data().to_vec(), f.crc(), f.message_number())),
            Err(e) => Err(format!("{:?}", e)),
        }
    });
    let r = match r { Ok(r) => r, Err(_) => return Some("MessageFrame::new panicked".into()) };
    let st = status(s);
    match (st, r) {
        (St::Short, Err(e)) | (St::Incomplete, Err(e)) => if e != "Incomplete" { Some(format!("expected Incomplete, got {}", e)) } else { None },
        (St::BadPreamble, Err(e)) | (St::BadCrc, Err(e)) => if e != "NotValid" { Some(format!("expected NotValid, got {}", e)) } else { None },
        (St::Valid, Err(e)) => Some(format!("valid frame rejected with {}", e)),
        (St::Valid, Ok((fl, dl, data, fd, crc, num))) => {
            let l = len_field(s);
            if fl != l + 6 { return Some(format!("frame_len {} != L+6 {}", fl, l + 6)); }
            if dl != l { return Some(format!("data_len {} != L {}", dl, l)); }
            if data != s[3..3 + l] { return Some("data() != bytes 3..3+L".into()); }
            if fd != s[..l + 6] { return Some("frame_data() != bytes 0..L+6".into()); }
            if crc != crc24q(&s[..l + 3]) { return Some(format!("crc() {:06x} != CRC-24Q {:06x}", crc, crc24q(&s[..l + 3]))); }
            let want = if l >= 2 { Some(((s[3] as u16) << 4) | ((s[4] as u16) >> 4)) } else { None };
            if num != want { return Some(format!("message_number {:?} != {:?}", num, want)); }
            None
        }
        (st, Ok(_)) => Some(format!("slice with status {:?} was accepted as a frame", st)),
    }
}

pub fn check_scan(s: &[u8]) -> Option<String> {
    let r = std::panic::catch_unwind(|| {
        let (c, f) = next_msg_frame(s);
        (c, f.map(|f| f.frame_data().to_vec()))
    });
    let (c, f) = match r { Ok(r) => r, Err(_) => return Some("next_msg_frame panicked".into()) };
    let (wc, wf) = scan(s);
    if c != wc { return Some(format!("consumed {} != {} (spec)", c, wc)); }
    match (f, wf) {
        (None, None) => None,
        (Some(fd), Some((st, l))) => if fd != s[st..st + l] { Some("delivered frame bytes differ from spec".into()) } else { None },
        (a, b) => Some(format!("delivered={:?} spec={:?}", a.is_some(), b)),
    }
}

pub fn check_iter(s: &[u8]) -> Option<String> {
    let r = std::panic::catch_unwind(|| {
        let mut it = MsgFrameIter::new(s);
        let mut frames = vec![];
        let mut guard = 0;
        for f in &mut it {
            frames.push(f.frame_data().to_vec());
            guard += 1;
            if guard > s.len() + 2 { return Err("iterator does not terminate".to_string()); }
        }
        Ok((frames, it.consumed()))
    });
    let (frames, consumed) = match r { Ok(Ok(r)) => r, Ok(Err(e)) => return Some(e), Err(_) => return Some("MsgFrameIter panicked".into()) };
    // spec: repeated scans
    let mut idx = 0;
    let mut want = vec![];
    loop {
        if idx >= s.len() { break; }
        let (c, f) = scan(&s[idx..]);
        match f { Some((st, l)) => { want.push(s[idx + st..idx + st + l].to_vec()); idx += c; } None => { idx += c; break; } }
    }
    if frames != want { return Some(format!("iterator yielded {} frames, spec {}", frames.len(), want.len())); }
    if consumed != idx { return Some(format!("iterator consumed {} != {}", consumed, idx)); }
    None
}

/// C06: feed `s` in chunks cut at `cuts`, caller protocol of the statement.
pub fn check_chunks(s: &[u8], cuts: &[usize]) -> Option<String> {
    let drain = |buf: &mut Vec<u8>, out: &mut Vec<Vec<u8>>, total: &mut usize| {
        loop {
            let (c, f) = next_msg_frame(&buf[..]);
            let got = f.map(|f| f.frame_data().to_vec());
            *total += c;
            let none = got.is_none();
            if let Some(g) = got { out.push(g); }
            buf.drain(..c.min(buf.len()));
            if none { break; }
        }
    };
    let r = std::panic::catch_unwind(|| {
        let mut whole = s.to_vec();
        let (mut o1, mut t1) = (vec![], 0usize);
        drain(&mut whole, &mut o1, &mut t1);
        let mut buf: Vec<u8> = vec![];
        let (mut o2, mut t2) = (vec![], 0usize);
        let mut prev = 0;
        let mut cs: Vec<usize> = cuts.iter().cloned().filter(|c| *c <= s.len()).collect();
        cs.push(s.len());
        for c in cs {
            if c < prev { continue; }
            buf.extend_from_slice(&s[prev..c]);
            prev = c;
            drain(&mut buf, &mut o2, &mut t2);
        }
        (o1, t1, o2, t2)
    });
    let (o1, t1, o2, t2) = match r { Ok(r) => r, Err(_) => return Some("scanner panicked".into()) };
    if o1 != o2 { return Some(format!("whole-stream delivers {} frames, chunked delivers {}", o1.len(), o2.len())); }
    if t1 != t2 { return Some(format!("whole-stream consumes {}, chunked consumes {}", t1, t2)); }
    None
}
