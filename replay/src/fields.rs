//! Replay / bounded search for single data fields (C08, C11) through the cfg(rtcm_rs_verif) re-export.
use rtcm_rs::verif_hook::{Assembler, Parser};
use rtcm_rs::prelude::RtcmError;

pub trait FieldVal: Sized + Clone + PartialEq + core::fmt::Debug {
    fn as_f64(&self) -> Option<f64>;       // None = absent
    fn from_f64(x: f64) -> Self;
    fn absent() -> Option<Self> { None }
}
macro_rules! fv_int { ($($t:ty),*) => { $(impl FieldVal for $t { fn as_f64(&self) -> Option<f64> { Some(*self as f64) } fn from_f64(x: f64) -> Self { x as $t } })* } }
fv_int!(u8, u16, u32, u64, usize, i8, i16, i32, i64);
impl FieldVal for f32 { fn as_f64(&self) -> Option<f64> { Some(*self as f64) } fn from_f64(x: f64) -> Self { x as f32 } }
impl FieldVal for f64 { fn as_f64(&self) -> Option<f64> { Some(*self) } fn from_f64(x: f64) -> Self { x } }
impl<T: FieldVal> FieldVal for Option<T> {
    fn as_f64(&self) -> Option<f64> { self.as_ref().and_then(|v| v.as_f64()) }
    fn from_f64(x: f64) -> Self { Some(T::from_f64(x)) }
    fn absent() -> Option<Self> { Some(None) }
}

pub struct FieldOps {
    pub name: &'static str,
    pub is_float: bool,
    pub optional: bool,
    pub sm: bool,
    pub f32: bool,
    /// decode the w-bit pattern: (width consumed, Some(value as f64) / None absent, is_finite) or Err
    pub dec: fn(&[u8]) -> Result<(usize, Option<f64>, bool), String>,
    /// decode then encode: returns (width, bytes)
    pub dec_enc: fn(&[u8]) -> Result<(usize, [u8; 8]), String>,
    /// encode a real value: (width, bytes)
    pub enc_f64: fn(f64) -> Result<(usize, [u8; 8]), String>,
    pub enc_absent: fn() -> Option<Result<(usize, [u8; 8]), String>>,
}

pub fn mk_dec<T: FieldVal>(d: fn(&mut Parser) -> Result<T, RtcmError>, data: &[u8]) -> Result<(usize, Option<f64>, bool), String> {
    let mut par = Parser::new(data, 0);
    match d(&mut par) {
        Ok(v) => { let x = v.as_f64(); Ok((par.offset(), x, x.map_or(true, |y| y.is_finite()) && v == v)) }
        Err(e) => Err(format!("{:?}", e)),
    }
}
pub fn mk_dec_enc<T: FieldVal>(d: fn(&mut Parser) -> Result<T, RtcmError>, e: fn(&mut Assembler, &T) -> Result<(), RtcmError>, data: &[u8]) -> Result<(usize, [u8; 8]), String> {
    let mut par = Parser::new(data, 0);
    let v = d(&mut par).map_err(|e| format!("decode: {:?}", e))?;
    let mut out = [0u8; 8];
    let off = { let mut asm = Assembler::new(&mut out, 0); e(&mut asm, &v).map_err(|e| format!("encode of decoded value {:?}: {:?}", v, e))?; asm.offset() };
    Ok((off, out))
}
pub fn mk_enc<T: FieldVal>(e: fn(&mut Assembler, &T) -> Result<(), RtcmError>, v: &T) -> Result<(usize, [u8; 8]), String> {
    let mut out = [0u8; 8];
    let off = { let mut asm = Assembler::new(&mut out, 0); e(&mut asm, v).map_err(|e| format!("{:?}", e))?; asm.offset() };
    Ok((off, out))
}

pub fn pat_bytes(p: u64, w: usize) -> [u8; 8] {
    let mut b = [0u8; 8];
    for j in 0..w { if (p >> (w - 1 - j)) & 1 == 1 { b[j / 8] |= 0x80 >> (j % 8); } }
    b
}
pub fn bytes_pat(b: &[u8; 8], w: usize) -> u64 {
    let mut p = 0u64;
    for j in 0..w { p = (p << 1) | ((b[j / 8] >> (7 - j % 8)) & 1) as u64; }
    p
}

pub fn width_of(f: &FieldOps) -> Result<usize, String> { (f.dec)(&[0u8; 8]).map(|r| r.0) }

/// C08 on one pattern. Returns Some(reason) on violation.
pub fn check_pattern(f: &FieldOps, w: usize, p: u64) -> Option<String> {
    let data = pat_bytes(p, w);
    let r = std::panic::catch_unwind(|| ((f.dec)(&data), (f.dec_enc)(&data)));
    let (d, de) = match r { Ok(x) => x, Err(_) => return Some(format!("panic on pattern {:#x}", p)) };
    let (dw, val, fin) = match d { Ok(x) => x, Err(e) => return Some(format!("decode of pattern {:#x} failed: {}", p, e)) };
    if dw != w { return Some(format!("decode consumed {} bits, expected {}", dw, w)); }
    if !fin { return Some(format!("pattern {:#x} decodes to a non-finite value", p)); }
    let (ew, out) = match de { Ok(x) => x, Err(e) => return Some(format!("pattern {:#x}: {}", p, e)) };
    if ew != w { return Some(format!("encode wrote {} bits, expected {}", ew, w)); }
    let q = bytes_pat(&out, w);
    if q != p {
        let negzero = f.sm && p == (1u64 << (w - 1)) && q == 0;
        if !negzero { return Some(format!("pattern {:#x} decodes to {:?} which encodes to {:#x}", p, val, q)); }
    }
    None
}

pub fn search_lossless(f: &FieldOps, rng: &mut crate::Rng, budget: u64) -> Result<u64, (u64, String)> {
    let w = match width_of(f) { Ok(w) => w, Err(e) => return Err((0, format!("decode of zero pattern failed: {}", e))) };
    let mut n = 0u64;
    let mut absent = vec![];
    let mut chk = |p: u64, n: &mut u64, absent: &mut Vec<u64>| -> Option<(u64, String)> {
        *n += 1;
        if let Some(why) = check_pattern(f, w, p) { return Some((p, why)); }
        if f.optional { if let Ok((_, None, _)) = (f.dec)(&pat_bytes(p, w)) { if !absent.contains(&p) { absent.push(p); } } }
        None
    };
    let full = w <= 20 || (1u64 << w.min(40)) <= budget;
    if full {
        for p in 0..(1u64 << w) { if let Some(h) = chk(p, &mut n, &mut absent) { return Err(h); } }
    } else {
        let top = if w >= 64 { u64::MAX } else { (1u64 << w) - 1 };
        let mut cands = vec![0, 1, 2, top, top - 1, top >> 1, (top >> 1) + 1, (top >> 1) + 2, (top >> 1) - 1];
        for j in 0..w { cands.push(1u64 << j); cands.push(top ^ (1u64 << j)); }
        for p in cands { if let Some(h) = chk(p & top, &mut n, &mut absent) { return Err(h); } }
        while n < budget { let p = rng.next() & top; if let Some(h) = chk(p, &mut n, &mut absent) { return Err(h); } }
    }
    if f.optional {
        if absent.len() != 1 { return Err((absent.get(1).cloned().unwrap_or(0), format!("{} patterns decode to 'absent' (explored {}): {:x?}", absent.len(), if full { "all" } else { "sample" }, &absent[..absent.len().min(4)]))); }
        if let Some(Ok((ew, out))) = (f.enc_absent)() { let q = bytes_pat(&out, w); if ew != w || q != absent[0] { return Err((q, format!("'absent' encodes to {:#x}, but the pattern decoding to absent is {:#x}", q, absent[0]))); } }
        else { return Err((0, "encoding 'absent' failed".into())); }
    }
    Ok(n)
}

/// C11 on one input. grid neighbours from the decoder itself.
pub fn check_quant(f: &FieldOps, w: usize, x: f64, g_lo: f64, g_hi: f64) -> Option<String> {
    let r = std::panic::catch_unwind(|| (f.enc_f64)(x));
    let (ew, out) = match r { Ok(Ok(v)) => v, Ok(Err(e)) => return Some(format!("in-range input {:e} rejected: {}", x, e)), Err(_) => return Some(format!("panic encoding {:e}", x)) };
    if ew != w { return Some(format!("encode wrote {} bits", ew)); }
    let back = match (f.dec)(&out) { Ok((_, Some(v), _)) => v, Ok((_, None, _)) => return Some(format!("in-range input {:e} encodes to the 'absent' pattern", x)), Err(e) => return Some(e) };
    let step = g_hi - g_lo;
    let slack = step * 1e-6 + x.abs() * if f.f32 { 4e-7 } else { 1e-15 };
    if !(back == g_lo || back == g_hi) { return Some(format!("input {:e} between grid points {:e} and {:e} encodes to {:e} (not a neighbour)", x, g_lo, g_hi, back)); }
    if (back - x).abs() > step / 2.0 + slack { return Some(format!("input {:e}: decoded {:e} is farther than half a step {:e}", x, back, step / 2.0)); }
    None
}

pub fn search_quant(f: &FieldOps, rng: &mut crate::Rng, budget: u64) -> Result<u64, (f64, String)> {
    if !f.is_float { return Ok(0); }
    let w = match width_of(f) { Ok(w) => w, Err(e) => return Err((0.0, e)) };
    let top = if w >= 64 { u64::MAX } else { (1u64 << w) - 1 };
    let val = |p: u64| -> Option<f64> { match (f.dec)(&pat_bytes(p & top, w)) { Ok((_, v, _)) => v, _ => None } };
    let mut n = 0u64;
    let fracs = [0.0, 1e-9, 0.25, 0.4999999, 0.5, 0.5000001, 0.75, 1.0 - 1e-9];
    let mut pats: Vec<u64> = vec![0, 1, 2, top - 2, top - 1, top >> 1, (top >> 1) - 1, (top >> 1) - 2, (top >> 1) + 1, (top >> 1) + 2];
    let extra = (budget / 8).min(200000);
    for _ in 0..extra { pats.push(rng.next() & top); }
    for p in pats {
        // neighbour in value order: try p and p+1 (same sign region)
        let (a, b) = (val(p), val(p.wrapping_add(1) & top));
        let (a, b) = match (a, b) { (Some(a), Some(b)) => (a, b), _ => continue };
        let (lo, hi) = if a <= b { (a, b) } else { continue };
        if !(hi > lo) { continue; }
        if (hi - lo) > (val(1).unwrap_or(1.0) - val(0).unwrap_or(0.0)).abs() * 1.5 { continue; } // wrap between sign regions
        for fr in fracs.iter() {
            let mut x = lo + (hi - lo) * fr;
            if f.f32 { x = (x as f32) as f64; if x < lo || x > hi { continue; } }
            n += 1;
            if let Some(why) = check_quant(f, w, x, lo, hi) { return Err((x, why)); }
        }
        // monotone on a pair
        let (x1, x2) = (lo + (hi - lo) * 0.3, lo + (hi - lo) * 0.8);
        if let (Ok(Ok((_, o1))), Ok(Ok((_, o2)))) = (std::panic::catch_unwind(|| (f.enc_f64)(x1)), std::panic::catch_unwind(|| (f.enc_f64)(x2))) {
            if let (Ok((_, Some(v1), _)), Ok((_, Some(v2), _))) = ((f.dec)(&o1), (f.dec)(&o2)) { n += 1; if v1 > v2 { return Err((x1, format!("not monotone: enc({:e}) -> {:e} > enc({:e}) -> {:e}", x1, v1, x2, v2))); } }
        }
    }
    Ok(n)
}
