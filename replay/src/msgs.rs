//! Message-level replay search (C01, C02, C09, C15, C16, C10 stand-ins): public API only.
use rtcm_rs::prelude::*;
use crate::l3::make_frame;

pub fn supported_numbers() -> Vec<u16> {
    // discovered from the real dispatch: a number is supported iff a 2-byte payload does not yield MsgNotSupported
    let mut v = vec![];
    for n in 0u16..4096 {
        let f = make_frame(&[(n >> 4) as u8, ((n & 0xf) << 4) as u8], 0);
        if let Ok(fr) = MessageFrame::new(&f) {
            match fr.get_message() { Message::MsgNotSupported(_) => {}, _ => v.push(n) }
        }
    }
    v
}

pub fn payload_for(n: u16, rng: &mut crate::Rng, len: usize, style: u64) -> Vec<u8> {
    let mut p: Vec<u8> = match style % 4 { 0 => vec![0u8; len], 1 => vec![0xffu8; len], _ => rng.bytes(len) };
    if p.len() < 2 { p.resize(2, 0); }
    p[0] = (n >> 4) as u8;
    p[1] = (((n & 0xf) << 4) as u8) | (p[1] & 0x0f);
    if style % 4 == 3 {
        // sparse: mostly zero with a few random bytes (keeps counts small so that bodies are long enough)
        for k in 2..p.len() { if rng.below(4) != 0 { p[k] = 0; } }
    }
    p
}

/// returns Some(reason) if the property is violated on this payload
pub fn check_payload(p: &[u8]) -> Option<String> {
    let frame = make_frame(p, 0);
    let r = std::panic::catch_unwind(|| {
        let fr = match MessageFrame::new(&frame) { Ok(f) => f, Err(e) => return Err(format!("own frame rejected: {:?}", e)) };
        Ok(fr.get_message())
    });
    let m1 = match r { Ok(Ok(m)) => m, Ok(Err(e)) => return Some(e), Err(_) => return Some("decode panicked (C02)".into()) };
    if !(m1 == m1) { return Some("decoded message is not equal to itself (non-finite float?) (C02)".into()); }
    match m1 { Message::Corrupt | Message::Empty | Message::MsgNotSupported(_) => return None, _ => {} }
    // encode the decoded message
    let m1c = m1.clone();
    let r = std::panic::catch_unwind(move || { let mut b = MessageBuilder::new(); b.build_message(&m1c).map(|x| x.to_vec()).map_err(|e| format!("{:?}", e)) });
    let f1 = match r { Ok(Ok(f)) => f, Ok(Err(_)) => return None /* encoder may refuse a decoded message (C01 is conditional) */, Err(_) => return Some("encode of a decoded message panicked (C09)".into()) };
    if let Some(w) = crate::l3::check_new(&f1) { return Some(format!("emitted frame is not well formed: {}", w)); }
    if f1.len() < 8 || f1.len() > 1029 || f1[1] >> 2 != 0 { return Some("emitted frame has bad length/reserved bits (C09)".into()); }
    let r = std::panic::catch_unwind(|| MessageFrame::new(&f1).map(|f| (f.get_message(), f.message_number())).map_err(|e| format!("{:?}", e)));
    let (m2, num2) = match r { Ok(Ok(x)) => x, Ok(Err(e)) => return Some(format!("emitted frame rejected: {}", e)), Err(_) => return Some("decode of emitted frame panicked".into()) };
    if num2 != m1.number() { return Some(format!("emitted frame carries number {:?}, message reports {:?} (C09/C14)", num2, m1.number())); }
    if m2 != m1 {
        // allowed: order of satellite groups in 1059/1065 - compare via a second round
        let m2c = m2.clone();
        let f2 = std::panic::catch_unwind(move || { let mut b = MessageBuilder::new(); b.build_message(&m2c).map(|x| x.to_vec()).ok() }).ok().flatten();
        if f2.as_deref() != Some(&f1[..]) { return Some("decode(encode(m)) != m for a decoded message m (C01 fixed point)".into()); }
        return None;
    }
    // re-encoding reproduces the frame
    let m2c = m2.clone();
    let f2 = std::panic::catch_unwind(move || { let mut b = MessageBuilder::new(); b.build_message(&m2c).map(|x| x.to_vec()).ok() }).ok().flatten();
    if f2.as_deref() != Some(&f1[..]) { return Some("re-encoding the decoded message does not reproduce the frame (C01)".into()); }
    // truncation of the canonical frame's payload must give Corrupt (C15)
    let l = f1.len() - 6;
    for cut in 1..=l.min(3) {
        if l - cut < 2 { break; }
        let t = make_frame(&f1[3..3 + l - cut], 0);
        let r = std::panic::catch_unwind(|| MessageFrame::new(&t).map(|f| f.get_message()).ok());
        match r { Ok(Some(Message::Corrupt)) => {}, Ok(Some(other)) => return Some(format!("payload truncated by {} byte(s) decodes to {:?} instead of Corrupt (C15)", cut, other.number())), Ok(None) => {}, Err(_) => return Some("decode of truncated frame panicked (C02)".into()) }
    }
    None
}

pub fn search(rng: &mut crate::Rng, budget: u64) -> Result<u64, (Vec<u8>, String)> {
    let nums = supported_numbers();
    let mut n = 0u64;
    let per = (budget / nums.len().max(1) as u64).max(8);
    for num in &nums {
        for k in 0..per {
            let len = match k % 6 { 0 => 2 + rng.below(8), 1 => 8 + rng.below(40), 2 => 40 + rng.below(200), 3 => 1023, 4 => 300 + rng.below(700), _ => 2 + rng.below(1022) };
            let p = payload_for(*num, rng, len, k / 6 + k);
            n += 1;
            if let Some(w) = check_payload(&p) { return Err((p, w)); }
        }
    }
    Ok(n)
}

/// C12: a builder's output must not depend on what it built before.
pub fn decode_payload(p: &[u8]) -> Option<Message> {
    let frame = make_frame(p, 0);
    let r = std::panic::catch_unwind(|| MessageFrame::new(&frame).ok().map(|f| f.get_message()));
    match r { Ok(Some(m)) => match m { Message::Corrupt | Message::Empty | Message::MsgNotSupported(_) => None, m => Some(m) }, _ => None }
}

pub fn builder_search(rng: &mut crate::Rng, budget: u64) -> Result<u64, (Vec<u8>, String)> {
    use rtcm_rs::msg::*;
    let nums = supported_numbers();
    // pool of history messages: long valid ones, and ones that fail late after writing many 1-bits
    let mut history: Vec<Message> = vec![];
    for n in [1004u16, 1012, 1077, 1087, 1033, 1029, 1059] {
        if !nums.contains(&n) { continue; }
        for style in [1u64, 2, 3] { if let Some(m) = decode_payload(&payload_for(n, rng, 1023, style)) { history.push(m); } }
    }
    if nums.contains(&1012) {
        for style in [1u64, 2] {
            if let Some(Message::Msg1012(mut m)) = decode_payload(&payload_for(1012, rng, 1023, style)) {
                if let Some(last) = m.satellites.as_mut_slice().last_mut() { last.glo_satellite_freq_chan_number = -8; }   // OutOfRange at the very end
                history.push(Message::Msg1012(m));
            }
        }
    }
    history.push(Message::Empty);
    let mut n = 0u64;
    let mut targets: Vec<Message> = vec![];
    // messages without a wire form are refused (an error value, not a panic), on a fresh and on a used builder (C09)
    for (what, m) in [("Empty", Message::Empty), ("Corrupt", Message::Corrupt), ("MsgNotSupported", Message::MsgNotSupported(rtcm_rs::msg::message::MsgNotSupportedT { message_number: 4072 })),
                      ("MsgNotSupported(1005)", Message::MsgNotSupported(rtcm_rs::msg::message::MsgNotSupportedT { message_number: 1005 }))] {
        n += 1;
        let r = std::panic::catch_unwind(move || { let mut b = MessageBuilder::new(); let first = b.build_message(&m).map(|x| x.len()).map_err(|e| format!("{:?}", e)); let again = b.build_message(&m).map(|x| x.len()).map_err(|e| format!("{:?}", e)); (first, again) });
        match r {
            Err(_) => return Err((vec![], format!("build_message panics for Message::{} (a message without a wire form must be refused with an error)", what))),
            Ok((Ok(l), _)) | Ok((_, Ok(l))) => return Err((vec![], format!("build_message returns a frame of {} bytes for Message::{}", l, what))),
            _ => {}
        }
    }
    for num in &nums {
        for k in 0..3u64 {
            let len = [6usize, 40, 300][k as usize];
            let extra = rng.below(30); if let Some(m) = decode_payload(&payload_for(*num, rng, len + extra, 3 + k)) { targets.push(m); }
        }
    }
    while n < budget {
        for t in &targets {
            let tc = t.clone();
            let fresh = std::panic::catch_unwind(move || { let mut b = MessageBuilder::new(); b.build_message(&tc).map(|x| x.to_vec()).map_err(|e| format!("{:?}", e)) });
            let fresh = match fresh { Ok(f) => f, Err(_) => continue };
            let hl = 1 + rng.below(3);
            let seq: Vec<Message> = (0..hl).map(|_| history[rng.below(history.len())].clone()).collect();
            let tc = t.clone();
            let used = std::panic::catch_unwind(move || { let mut b = MessageBuilder::new(); for h in &seq { let _ = b.build_message(h); } b.build_message(&tc).map(|x| x.to_vec()).map_err(|e| format!("{:?}", e)) });
            let used = match used { Ok(f) => f, Err(_) => return Err((vec![], "builder panicked in a build sequence".into())) };
            n += 1;
            if used != fresh {
                let fr = fresh.clone().unwrap_or_default();
                return Err((fr, format!("frame from a used builder differs from a fresh builder's frame for message {:?} (C12)", t.number())));
            }
            if n >= budget { break; }
        }
        if targets.is_empty() { break; }
    }
    Ok(n)
}

/// C14: classification by message number, exhaustively for two-byte and longer payloads.
pub fn classify_search(rng: &mut crate::Rng) -> Result<u64, (Vec<u8>, String)> {
    let mut n = 0u64;
    // payloads shorter than two bytes are Empty, whatever follows the frame
    for l in 0..2usize { for b in [0u8, 0x3e, 0xff] { for suf in [0usize, 1, 4] {
        let p = vec![b; l];
        let mut f = make_frame(&p, 0); f.extend(std::iter::repeat(0xd0u8).take(suf));
        n += 1;
        match MessageFrame::new(&f) { Ok(fr) => { if fr.get_message() != Message::Empty || fr.message_number().is_some() { return Err((f, format!("payload of {} byte(s) is not classified Empty", l))); } } Err(_) => return Err((f, "valid frame rejected".into())) }
    } } }
    let sup = supported_numbers();
    for num in 0u16..4096 {
        for len in [2usize, 3, 9, 64] {
            let p = payload_for(num, rng, len, (num as u64) % 3);
            let f = make_frame(&p, 0);
            n += 1;
            let r = std::panic::catch_unwind(|| MessageFrame::new(&f).map(|x| x.get_message()).ok());
            let m = match r { Ok(Some(m)) => m, Ok(None) => return Err((p, "own frame rejected".into())), Err(_) => return Err((p, "decode panicked".into())) };
            let ok = match &m {
                Message::MsgNotSupported(t) => t.message_number == num && !sup.contains(&num),
                Message::Corrupt => sup.contains(&num),
                Message::Empty => false,
                typed => typed.number() == Some(num) && sup.contains(&num),
            };
            if !ok { return Err((p, format!("number {} classified as {:?}", num, m.number()))); }
        }
    }
    Ok(n)
}

/// C10: MSM encoding must not depend on the order in which satellites and cells are listed.
macro_rules! msm_perm {
    ($m:expr, $rng:expr, $($v:ident),*) => {
        match $m {
            $( Message::$v(ref mut t) => {
                let ds = &mut t.data_segment;
                let k = $rng.below(4);
                { let s = ds.satellite_data.as_mut_slice(); if s.len() > 1 { match k { 0 => s.reverse(), 1 => s.rotate_left(1), _ => { let a = $rng.below(s.len()); let b = $rng.below(s.len()); s.swap(a, b); } } } }
                { let s = ds.signal_data.as_mut_slice(); if s.len() > 1 { match k { 0 => s.reverse(), 1 => { let n = s.len(); s.rotate_left(n / 2) }, 2 => { s.rotate_left(1); s.reverse() }, _ => { for _ in 0..s.len() { let a = $rng.below(s.len()); let b = $rng.below(s.len()); s.swap(a, b); } } } } }
                true
            } )*
            _ => false,
        }
    };
}

pub fn msm_perm_search(rng: &mut crate::Rng, budget: u64) -> Result<u64, (Vec<u8>, String)> {
    let nums: Vec<u16> = supported_numbers().into_iter().filter(|n| (1071..=1137).contains(n)).collect();
    let mut n = 0u64;
    let mut round = 0u64;
    while n < budget && !nums.is_empty() {
        round += 1;
        for num in &nums {
            // sparse payloads so that few satellites/signals are set and the cell count stays <= 64
            let mut p = payload_for(*num, rng, 700, 0);
            // set a few mask bits: satellites in bytes 9..17, signals in 17..21 (bit offsets 73 / 137), cells after
            for _ in 0..(2 + rng.below(5)) { let b = 73 + rng.below(64); p[b / 8] |= 0x80 >> (b % 8); }
            for _ in 0..(1 + rng.below(4)) { let b = 137 + rng.below(32); p[b / 8] |= 0x80 >> (b % 8); }
            for k in 21..60 { p[k] = rng.next() as u8; }
            for k in 60..p.len() { if rng.below(3) == 0 { p[k] = rng.next() as u8; } }
            let m = match decode_payload(&p) { Some(m) => m, None => continue };
            let mc = m.clone();
            let f1 = match std::panic::catch_unwind(move || { let mut b = MessageBuilder::new(); b.build_message(&mc).map(|x| x.to_vec()).ok() }) { Ok(Some(f)) => f, _ => continue };
            let mut m2 = m.clone();
            let is_msm = msm_perm!(m2, rng, Msg1071, Msg1072, Msg1073, Msg1074, Msg1075, Msg1076, Msg1077, Msg1081, Msg1082, Msg1083, Msg1084, Msg1085, Msg1086, Msg1087,
                Msg1091, Msg1092, Msg1093, Msg1094, Msg1095, Msg1096, Msg1097, Msg1101, Msg1102, Msg1103, Msg1104, Msg1105, Msg1106, Msg1107,
                Msg1111, Msg1112, Msg1113, Msg1114, Msg1115, Msg1116, Msg1117, Msg1121, Msg1122, Msg1123, Msg1124, Msg1125, Msg1126, Msg1127,
                Msg1131, Msg1132, Msg1133, Msg1134, Msg1135, Msg1136, Msg1137);
            if !is_msm { continue; }
            n += 1;
            let f2 = std::panic::catch_unwind(move || { let mut b = MessageBuilder::new(); b.build_message(&m2).map(|x| x.to_vec()).map_err(|e| format!("{:?}", e)) });
            match f2 {
                Ok(Ok(f2)) => if f2 != f1 { return Err((p, format!("message {}: encoding a permutation of the satellite/cell lists gives a different frame (C10)", num))); },
                Ok(Err(e)) => return Err((p, format!("message {}: a permutation of a valid MSM message is rejected: {}", num, e))),
                Err(_) => return Err((p, format!("message {}: encoder panicked on a permuted MSM message", num))),
            }
        }
        if round > budget { break; }
    }
    Ok(n)
}

/// C16: SSR code-bias (1059, 1065) and GLONASS code-phase bias (1230) lists keep every entry or report an error.
pub fn bias_search(rng: &mut crate::Rng, budget: u64) -> Result<u64, (Vec<u8>, String)> {
    use rtcm_rs::msg::*;
    let gps_sigs: [(u8, char); 12] = [(1, 'C'), (1, 'P'), (1, 'W'), (2, 'C'), (2, 'D'), (2, 'S'), (2, 'L'), (2, 'X'), (2, 'P'), (2, 'W'), (5, 'I'), (5, 'Q')];
    let glo_sigs: [(u8, char); 4] = [(1, 'C'), (1, 'P'), (2, 'C'), (2, 'P')];
    let mut n = 0u64;
    let grid = |x: f32| -> i32 { (x / 0.01).round() as i32 };
    // ---- one satellite with k entries (signals repeat): every count around the 5-bit field limit and around 256 (u8 wrap), up to the list capacity
    for k in [0usize, 1, 31, 32, 33, 63, 64, 255, 256, 257, 287, 288, 289, 390] {
        for which in 0..2 {
            n += 1;
            let msg = if which == 0 {
                let mut m = Msg1059T::default();
                for i in 0..k { m.biases.push(Msg1059CodeBias { satellite_id: 9, signal_id: GpsSigId::new(gps_sigs[i % 12].0, gps_sigs[i % 12].1), bias_m: (i % 100) as f32 * 0.01 }); }
                Message::Msg1059(m)
            } else {
                let mut m = Msg1065T::default();
                for i in 0..k { m.biases.push(Msg1065CodeBias { satellite_id: 9, signal_id: GloSigId::new(glo_sigs[i % 4].0, glo_sigs[i % 4].1), bias_m: (i % 100) as f32 * 0.01 }); }
                Message::Msg1065(m)
            };
            let r = std::panic::catch_unwind(move || { let mut b = MessageBuilder::new(); b.build_message(&msg).map(|x| x.to_vec()).map_err(|e| format!("{:?}", e)) });
            match r {
                Err(_) => return Err((vec![], format!("{} encode panicked with {} entries for one satellite", 1059 + 6 * which, k))),
                Ok(Err(_)) => {}
                Ok(Ok(f)) => {
                    let got = match std::panic::catch_unwind(|| MessageFrame::new(&f).map(|x| x.get_message()).ok()) {
                        Ok(Some(Message::Msg1059(b))) => b.biases.len(), Ok(Some(Message::Msg1065(b))) => b.biases.len(),
                        _ => return Err((f, "frame emitted by the bias-list encoder does not decode to the same message type".into())) };
                    if got != k { return Err((f, format!("{}: {} entries of one satellite accepted by the encoder, {} decoded: entries silently lost (C16)", 1059 + 6 * which, k, got))); }
                }
            }
        }
    }
    while n < budget {
        n += 1;
        // ---- 1059
        let nsat = [0usize, 1, 2, 5, 12, 32, 63, 64][rng.below(8)];
        let per = [1usize, 2, 12, 12, 3][rng.below(5)];
        let mut entries: Vec<(u8, usize, f32)> = vec![];
        let mut sats: Vec<u8> = (0..64u8).collect();
        for i in 0..sats.len() { let j = rng.below(sats.len()); sats.swap(i, j); }
        'outer: for s in sats.iter().take(nsat) { let mut sig: Vec<usize> = (0..12).collect(); for i in 0..12 { let j = rng.below(12); sig.swap(i, j); }
            for g in sig.iter().take(per) { if entries.len() >= 390 { break 'outer; } entries.push((*s, *g, ((rng.next() % 16000) as f32 - 8000.0) * 0.01)); } }
        // scatter
        if rng.below(2) == 0 { for i in 0..entries.len() { let j = rng.below(entries.len()); entries.swap(i, j); } }
        let mut m = Msg1059T::default();
        for (s, g, b) in &entries { m.biases.push(Msg1059CodeBias { satellite_id: *s, signal_id: GpsSigId::new(gps_sigs[*g].0, gps_sigs[*g].1), bias_m: *b }); }
        let msg = Message::Msg1059(m);
        let mc = msg.clone();
        let r = std::panic::catch_unwind(move || { let mut b = MessageBuilder::new(); b.build_message(&mc).map(|x| x.to_vec()).map_err(|e| format!("{:?}", e)) });
        match r {
            Err(_) => return Err((vec![], format!("1059 encode panicked ({} satellites x {} signals)", nsat, per))),
            Ok(Err(_)) => {}
            Ok(Ok(f)) => {
                let back = std::panic::catch_unwind(|| MessageFrame::new(&f).map(|x| x.get_message()).ok());
                let back = match back { Ok(Some(Message::Msg1059(b))) => b, _ => return Err((f, "1059 frame emitted by the encoder does not decode to a 1059 message".into())) };
                let mut want: Vec<(u8, u8, char, i32)> = entries.iter().map(|(s, g, b)| (*s, gps_sigs[*g].0, gps_sigs[*g].1, grid(*b))).collect();
                let mut got: Vec<(u8, u8, char, i32)> = back.biases.iter().map(|e| (e.satellite_id, e.signal_id.band(), e.signal_id.attribute(), grid(e.bias_m))).collect();
                let groups_ascending = got.windows(2).all(|w| w[0].0 <= w[1].0);
                want.sort(); got.sort();
                if want != got { return Err((f, format!("1059: {} entries encoded, {} decoded: entries lost, duplicated or changed (C16)", want.len(), got.len()))); }
                if !groups_ascending { return Err((f, "1059: decoded entries are not grouped by ascending satellite".into())); }
            }
        }
        // ---- 1065 (GLONASS, satellites 0..=31, 4 signals)
        let nsat = [0usize, 1, 3, 24, 32][rng.below(5)];
        let per = 1 + rng.below(4);
        let mut entries: Vec<(u8, usize, f32)> = vec![];
        let mut sats: Vec<u8> = (0..32u8).collect();
        for i in 0..sats.len() { let j = rng.below(sats.len()); sats.swap(i, j); }
        for s in sats.iter().take(nsat) { let mut sig: Vec<usize> = (0..4).collect(); for i in 0..4 { let j = rng.below(4); sig.swap(i, j); } for g in sig.iter().take(per) { entries.push((*s, *g, ((rng.next() % 16000) as f32 - 8000.0) * 0.01)); } }
        if rng.below(2) == 0 { for i in 0..entries.len() { let j = rng.below(entries.len()); entries.swap(i, j); } }
        let mut m = Msg1065T::default();
        for (s, g, b) in &entries { m.biases.push(Msg1065CodeBias { satellite_id: *s, signal_id: GloSigId::new(glo_sigs[*g].0, glo_sigs[*g].1), bias_m: *b }); }
        let msg = Message::Msg1065(m);
        let r = std::panic::catch_unwind(move || { let mut b = MessageBuilder::new(); b.build_message(&msg).map(|x| x.to_vec()).map_err(|e| format!("{:?}", e)) });
        match r {
            Err(_) => return Err((vec![], "1065 encode panicked".into())),
            Ok(Err(_)) => {}
            Ok(Ok(f)) => {
                let back = match std::panic::catch_unwind(|| MessageFrame::new(&f).map(|x| x.get_message()).ok()) { Ok(Some(Message::Msg1065(b))) => b, _ => return Err((f, "1065 frame does not decode to a 1065 message".into())) };
                let mut want: Vec<(u8, u8, char, i32)> = entries.iter().map(|(s, g, b)| (*s, glo_sigs[*g].0, glo_sigs[*g].1, grid(*b))).collect();
                let mut got: Vec<(u8, u8, char, i32)> = back.biases.iter().map(|e| (e.satellite_id, e.signal_id.band(), e.signal_id.attribute(), grid(e.bias_m))).collect();
                let groups_ascending = got.windows(2).all(|w| w[0].0 <= w[1].0);
                want.sort(); got.sort();
                if want != got { return Err((f, format!("1065: {} entries encoded, {} decoded (C16)", want.len(), got.len()))); }
                if !groups_ascending { return Err((f, "1065: decoded entries are not grouped by ascending satellite".into())); }
            }
        }
        // ---- 1230: distinct recognised signals in any order
        let k = rng.below(5);
        let mut sig: Vec<usize> = (0..4).collect(); for i in 0..4 { let j = rng.below(4); sig.swap(i, j); }
        let mut m = Msg1230T::default();
        let mut want: Vec<(u8, char, i32)> = vec![];
        for g in sig.iter().take(k) { let b = ((rng.next() % 60000) as f32 - 30000.0) * 0.02; m.glo_code_phase_biases.push(Msg1230CodePhaseBias { signal_id: GloSigId::new(glo_sigs[*g].0, glo_sigs[*g].1), bias_m: b }); want.push((glo_sigs[*g].0, glo_sigs[*g].1, (b / 0.02).round() as i32)); }
        let msg = Message::Msg1230(m);
        let r = std::panic::catch_unwind(move || { let mut b = MessageBuilder::new(); b.build_message(&msg).map(|x| x.to_vec()).map_err(|e| format!("{:?}", e)) });
        match r {
            Err(_) => return Err((vec![], "1230 encode panicked".into())),
            Ok(Err(e)) => return Err((vec![], format!("1230 with distinct recognised signals refused: {}", e))),
            Ok(Ok(f)) => {
                let back = match std::panic::catch_unwind(|| MessageFrame::new(&f).map(|x| x.get_message()).ok()) { Ok(Some(Message::Msg1230(b))) => b, _ => return Err((f, "1230 frame does not decode to a 1230 message".into())) };
                let got: Vec<(u8, char, i32)> = back.glo_code_phase_biases.iter().map(|e| (e.signal_id.band(), e.signal_id.attribute(), (e.bias_m / 0.02).round() as i32)).collect();
                want.sort();
                if got != want { return Err((f, format!("1230: decoded {:?}, expected the same set in table order {:?} (C16)", got, want))); }
            }
        }
    }
    Ok(n)
}

/// C10: invalid MSM inputs are rejected with the matching error instead of being encoded.
macro_rules! msm_mutate {
    ($m:expr, $k:expr, $($v:ident),*) => {
        match $m {
            $( Message::$v(ref mut t) => {
                let ds = &mut t.data_segment;
                if ds.satellite_data.len() == 0 || ds.signal_data.len() == 0 { None } else {
                match $k {
                    0 => { ds.signal_data.clear(); Some("SatelliteMismatch") }
                    1 => { ds.satellite_data.clear(); Some("SatelliteMismatch") }
                    2 => { ds.satellite_data.as_mut_slice()[0].satellite_id = 0; Some("InvalidSatelliteId") }
                    3 => { ds.signal_data.as_mut_slice()[0].satellite_id = 65; Some("InvalidSatelliteId") }
                    4 => { ds.signal_data.as_mut_slice()[0].signal_id = Default::default(); Some("InvalidSignalId") }
                    5 => { if ds.satellite_data.len() < 64 { let c = ds.satellite_data.as_slice()[0].clone(); ds.satellite_data.push(c); Some("DuplicateSatellite") } else { None } }
                    6 => { if ds.signal_data.len() < 64 { let c = ds.signal_data.as_slice()[0].clone(); ds.signal_data.push(c); Some("DuplicateSatelliteSignal") } else { None } }
                    _ => { // a cell on a satellite that has no row
                        let used: Vec<u8> = ds.satellite_data.iter().map(|s| s.satellite_id).collect();
                        match (1u8..=64).find(|s| !used.contains(s)) { Some(free) => { ds.signal_data.as_mut_slice()[0].satellite_id = free; Some("SatelliteMismatch") } None => None }
                    }
                } }
            } )*
            _ => None,
        }
    };
}

pub fn msm_invalid_search(rng: &mut crate::Rng, budget: u64) -> Result<u64, (Vec<u8>, String)> {
    let nums: Vec<u16> = supported_numbers().into_iter().filter(|n| (1071..=1137).contains(n)).collect();
    let mut n = 0u64;
    let mut rounds = 0;
    while n < budget && !nums.is_empty() && rounds < 200 {
        rounds += 1;
        for num in &nums {
            let mut p = payload_for(*num, rng, 700, 0);
            for _ in 0..(2 + rng.below(4)) { let b = 73 + rng.below(64); p[b / 8] |= 0x80 >> (b % 8); }
            for _ in 0..(1 + rng.below(3)) { let b = 137 + rng.below(32); p[b / 8] |= 0x80 >> (b % 8); }
            for k in 21..40 { p[k] = rng.next() as u8; }
            let m = match decode_payload(&p) { Some(m) => m, None => continue };
            // only messages the encoder accepts as they are (a decoded satellite row without any cell is itself a mismatch)
            let mc = m.clone();
            match std::panic::catch_unwind(move || { let mut b = MessageBuilder::new(); b.build_message(&mc).is_ok() }) { Ok(true) => {}, _ => continue }
            for k in 0..8usize {
                let mut m2 = m.clone();
                let want = msm_mutate!(m2, k, Msg1071, Msg1072, Msg1073, Msg1074, Msg1075, Msg1076, Msg1077, Msg1081, Msg1082, Msg1083, Msg1084, Msg1085, Msg1086, Msg1087,
                    Msg1091, Msg1092, Msg1093, Msg1094, Msg1095, Msg1096, Msg1097, Msg1101, Msg1102, Msg1103, Msg1104, Msg1105, Msg1106, Msg1107,
                    Msg1111, Msg1112, Msg1113, Msg1114, Msg1115, Msg1116, Msg1117, Msg1121, Msg1122, Msg1123, Msg1124, Msg1125, Msg1126, Msg1127,
                    Msg1131, Msg1132, Msg1133, Msg1134, Msg1135, Msg1136, Msg1137);
                let want = match want { Some(w) => w, None => continue };
                n += 1;
                let r = std::panic::catch_unwind(move || { let mut b = MessageBuilder::new(); b.build_message(&m2).map(|x| x.len()).map_err(|e| format!("{:?}", e)) });
                match r {
                    Err(_) => return Err((p, format!("message {}: encoder panicked on an invalid MSM input (case {})", num, k))),
                    Ok(Ok(_)) => return Err((p, format!("message {}: invalid MSM input (case {}: expected {}) was encoded instead of rejected (C10)", num, k, want))),
                    Ok(Err(e)) => { if e != want { return Err((p, format!("message {}: invalid MSM input case {} rejected with {} instead of {} (C10)", num, k, e, want))); } }
                }
            }
        }
    }
    Ok(n)
}

/// C08 / C11 / C16 stand-in for the three hand-written bias quantisers (1059/1065: 14 bits x 0.01 m; 1230: 16 bits x 0.02 m), through the
/// public API only: for EVERY wire pattern p of the field and inputs on and around the grid point p*R (never outside the representable
/// range), the built frame decodes to exactly one entry within half a step of the input, and re-encoding the decoded message gives the
/// same frame (lossless on the grid).  Input encoding for rerun: [which 0..=2, pattern as 4 little-endian bytes, offset index].
const BQ_OFF: [f64; 5] = [0.0, 0.3, -0.3, 0.49, -0.49];
pub fn biasq_one(which: u8, p: i32, oi: usize) -> Option<String> {
    use rtcm_rs::msg::*;
    let (r, lo, hi): (f64, i32, i32) = if which == 2 { (0.02, -32768, 32767) } else { (0.01, -8192, 8191) };
    let xr = (p as f64 + BQ_OFF[oi % 5]) * r;
    if xr < lo as f64 * r || xr > hi as f64 * r { return None; }
    let x = xr as f32;
    let build = |b: f32| -> Message {
        match which {
            0 => { let mut m = Msg1059T::default(); m.biases.push(Msg1059CodeBias { satellite_id: 7, signal_id: GpsSigId::new(1, 'C'), bias_m: b }); Message::Msg1059(m) }
            1 => { let mut m = Msg1065T::default(); m.biases.push(Msg1065CodeBias { satellite_id: 7, signal_id: GloSigId::new(1, 'C'), bias_m: b }); Message::Msg1065(m) }
            _ => { let mut m = Msg1230T::default(); m.glo_code_phase_biases.push(Msg1230CodePhaseBias { signal_id: GloSigId::new(1, 'C'), bias_m: b }); Message::Msg1230(m) }
        }
    };
    let name = ["1059", "1065", "1230"][which as usize % 3];
    let enc = |m: Message| std::panic::catch_unwind(move || { let mut b = MessageBuilder::new(); b.build_message(&m).map(|x| x.to_vec()).map_err(|e| format!("{:?}", e)) });
    let f1 = match enc(build(x)) { Err(_) => return Some(format!("{}: encode panicked for in-range bias {:e}", name, x)), Ok(Err(e)) => return Some(format!("{}: in-range bias {:e} rejected: {}", name, x, e)), Ok(Ok(f)) => f };
    let back = match std::panic::catch_unwind(|| MessageFrame::new(&f1).map(|fr| fr.get_message()).ok()) { Ok(Some(m)) => m, _ => return Some(format!("{}: frame built for bias {:e} is not accepted", name, x)) };
    let got: Vec<f32> = match &back {
        Message::Msg1059(m) => m.biases.iter().map(|e| e.bias_m).collect(),
        Message::Msg1065(m) => m.biases.iter().map(|e| e.bias_m).collect(),
        Message::Msg1230(m) => m.glo_code_phase_biases.iter().map(|e| e.bias_m).collect(),
        _ => return Some(format!("{}: frame built for bias {:e} decodes to another message", name, x)),
    };
    if got.len() != 1 { return Some(format!("{}: one entry with bias {:e} (pattern {}) encoded, {} entries decoded", name, x, p, got.len())); }
    let err = (got[0] as f64 - xr).abs();
    if err > r * 0.5 + 4e-7 * (xr.abs() + r) + 2e-6 { return Some(format!("{}: in-range bias {:e} decodes as {:e}: error {:e} > half a step {:e}", name, x, got[0], err, r * 0.5)); }
    match enc(back) { Ok(Ok(f2)) if f2 == f1 => None, Ok(Ok(_)) => Some(format!("{}: decode then encode does not reproduce the frame for bias pattern {} ({:e})", name, p, x)), _ => Some(format!("{}: re-encoding the decoded message fails for bias pattern {}", name, p)) }
}

pub fn biasq_search() -> Result<u64, (Vec<u8>, String)> {
    let mut n = 0u64;
    for which in 0u8..3 {
        let (lo, hi) = if which == 2 { (-32768i32, 32767i32) } else { (-8192, 8191) };
        for p in lo..=hi {
            // every pattern on the grid; the off-grid neighbours for the range ends, around zero and every 7th pattern
            let dense = p - lo < 3 || hi - p < 3 || p.abs() < 3 || p % 7 == 0;
            for oi in 0..(if dense { 5 } else { 1 }) {
                n += 1;
                if let Some(w) = biasq_one(which, p, oi) {
                    let mut inp = vec![which]; inp.extend_from_slice(&p.to_le_bytes()); inp.push(oi as u8);
                    return Err((inp, w));
                }
            }
        }
    }
    Ok(n)
}
