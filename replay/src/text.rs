//! C17 bounded search: text fields through the public API.
use rtcm_rs::prelude::*;
use rtcm_rs::msg::*;
use rtcm_rs::util::{ArrayString, Df88591String};

fn latin1(c: char) -> u8 { let k = c as u32; if (1..=255).contains(&k) { k as u8 } else { 0xa4 } }

fn pool(rng: &mut crate::Rng, n: usize) -> String {
    let alphabet: [char; 24] = ['a', 'Z', '0', ' ', '\u{0}', '\u{7f}', '\u{80}', '\u{a4}', '\u{e9}', '\u{ff}', '\u{100}', '\u{3b1}', '\u{20ac}', '\u{4e2d}', '\u{1f600}', '\u{10ffff}',
        '\u{141}', '\u{1e9}', '\u{10000}', '\u{10041}', '\u{2004e}', '\u{100ff}', '\u{ffff}', '\u{10001}'];
    (0..n).map(|_| alphabet[rng.below(alphabet.len())]).collect()
}

fn check_desc<const N: usize>(s: &str) -> Option<String> {
    let d = Df88591String::<N>::from(s);
    let want: Vec<u8> = s.chars().take(N).map(latin1).collect();
    let got: Vec<u8> = d.iter().cloned().collect();
    if got != want { return Some(format!("Df88591String<{}>::from({:?}) stores {:x?}, expected {:x?}", N, s, got, want)); }
    let back: Vec<char> = d.chars().collect();
    let wantc: Vec<char> = want.iter().map(|b| char::from_u32(*b as u32).unwrap()).collect();
    if back != wantc { return Some(format!("chars() of Df88591String<{}>::from({:?}) reads back {:?}", N, s, back)); }
    None
}
fn check_utf8<const N: usize>(s: &str) -> Option<String> {
    let r = std::panic::catch_unwind(|| { let a = ArrayString::<N>::from(s); let st: &str = &a; st.to_string() });
    let got = match r { Ok(g) => g, Err(_) => return Some(format!("ArrayString<{}>::from({:?}) holds invalid UTF-8 (deref panicked)", N, s)) };
    let mut want = String::new();
    for c in s.chars() { if want.len() + c.len_utf8() > N { break; } want.push(c); }
    if got != want { return Some(format!("ArrayString<{}>::from({:?}) keeps {:?}, expected the longest fitting prefix {:?}", N, s, got, want)); }
    None
}

fn roundtrip(m: Message) -> Result<Message, String> {
    let r = std::panic::catch_unwind(move || { let mut b = MessageBuilder::new(); b.build_message(&m).map(|x| x.to_vec()).map_err(|e| format!("{:?}", e)) });
    let f = match r { Ok(Ok(f)) => f, Ok(Err(e)) => return Err(e), Err(_) => return Err("panic".into()) };
    match std::panic::catch_unwind(|| MessageFrame::new(&f).map(|x| x.get_message()).ok()) { Ok(Some(m)) => Ok(m), _ => Err("decode failed".into()) }
}

pub fn search(rng: &mut crate::Rng, budget: u64) -> Result<u64, (Vec<u8>, String)> {
    let mut n = 0u64;
    while n < budget {
        let len = [0usize, 1, 6, 7, 8, 30, 31, 32, 33, 126, 127, 128, 129, 254, 255, 256][rng.below(16)];
        let len = if len > 40 && rng.below(3) != 0 { rng.below(12) } else { len };
        let s = pool(rng, len);
        n += 1;
        for w in [check_desc::<7>(&s), check_desc::<31>(&s), check_utf8::<7>(&s), check_utf8::<31>(&s), check_utf8::<255>(&s)] {
            if let Some(w) = w { return Err((s.into_bytes(), w)); }
        }
        // descriptor through a message
        let mut m = Msg1007T::default();
        m.antenna_descriptor_str = Df88591String::from(s.as_str());
        let orig = Message::Msg1007(m);
        match roundtrip(orig.clone()) { Ok(back) => if back != orig { return Err((s.into_bytes(), "message 1007: descriptor does not survive encode/decode unchanged".into())); }, Err(e) => return Err((s.into_bytes(), format!("message 1007 with a descriptor failed: {}", e))) }
        // UTF-8 text through message 1029
        let mut t = Msg1029T::default();
        t.text_str = ArrayString::from(s.as_str());
        let kept: String = { let st: &str = &t.text_str; st.to_string() };
        let orig = Message::Msg1029(t);
        let too_long = kept.chars().count() > 127 || kept.len() > 255;
        match roundtrip(orig.clone()) {
            Ok(back) => { if too_long { return Err((s.into_bytes(), "message 1029: text longer than 127 chars / 255 bytes was encoded".into())); } if back != orig { return Err((s.into_bytes(), "message 1029: text does not survive encode/decode unchanged".into())); } }
            Err(e) => if !too_long { return Err((s.into_bytes(), format!("message 1029 with admissible text failed: {}", e))); }
        }
    }
    // invalid UTF-8 inside a 1029 frame => Corrupt
    for bad in [vec![0xffu8], vec![0xc3], vec![0xe2, 0x82], vec![0xed, 0xa0, 0x80], vec![b'a', 0x80]] {
        let mut bits: Vec<u8> = vec![];
        let mut put = |v: u64, w: usize, bits: &mut Vec<u8>| { for i in (0..w).rev() { bits.push(((v >> i) & 1) as u8); } };
        put(1029, 12, &mut bits); put(0, 12, &mut bits); put(0, 16, &mut bits); put(0, 17, &mut bits);
        put(bad.len() as u64, 7, &mut bits); put(bad.len() as u64, 8, &mut bits);
        for b in &bad { put(*b as u64, 8, &mut bits); }
        while bits.len() % 8 != 0 { bits.push(0); }
        let p: Vec<u8> = bits.chunks(8).map(|c| c.iter().fold(0u8, |a, b| (a << 1) | b)).collect();
        let f = crate::l3::make_frame(&p, 0);
        n += 1;
        match std::panic::catch_unwind(|| MessageFrame::new(&f).map(|x| x.get_message()).ok()) {
            Ok(Some(Message::Corrupt)) => {}
            Ok(Some(other)) => return Err((p, format!("1029 frame with invalid UTF-8 decodes to {:?} instead of Corrupt", other.number()))),
            _ => return Err((p, "1029 frame with invalid UTF-8: panic or rejection".into())),
        }
    }
    Ok(n)
}
