//! Native replay / replay-search binary.  Built against the *current* /repo tree with --cfg rtcm_rs_verif.
//! usage: replay search <kind> <seed> <budget>   |   replay rerun <kind> <hex-input> [cuts,comma,separated]
mod l3;
mod fields;
mod fields_gen;
mod msgs;
mod text;
mod sig;

pub struct Rng(pub u64);
impl Rng {
    pub fn next(&mut self) -> u64 { let mut x = self.0; x ^= x << 13; x ^= x >> 7; x ^= x << 17; self.0 = x; x }
    pub fn below(&mut self, n: usize) -> usize { if n == 0 { 0 } else { (self.next() % n as u64) as usize } }
    pub fn bytes(&mut self, n: usize) -> Vec<u8> { (0..n).map(|_| self.next() as u8).collect() }
}

fn hex(b: &[u8]) -> String { b.iter().map(|x| format!("{:02x}", x)).collect() }
fn unhex(s: &str) -> Vec<u8> { (0..s.len() / 2).map(|i| u8::from_str_radix(&s[2 * i..2 * i + 2], 16).unwrap()).collect() }

fn found(kind: &str, input: &[u8], cuts: &[usize], why: &str, evals: u64) -> ! {
    println!("FOUND {{\"kind\":\"{}\",\"input_hex\":\"{}\",\"cuts\":{:?},\"observed\":{:?},\"evaluations\":{}}}", kind, hex(input), cuts, why, evals);
    std::process::exit(0)
}

const LENS: [usize; 12] = [0, 1, 2, 3, 4, 7, 19, 255, 256, 257, 1022, 1023];

fn sample_frames(rng: &mut Rng) -> Vec<Vec<u8>> {
    let mut v = vec![];
    for (k, l) in LENS.iter().enumerate() {
        let mut p = rng.bytes(*l);
        if *l >= 2 { p[0] = 0x3e; p[1] = 0xd0 | (p[1] & 0xf); }
        v.push(l3::make_frame(&p, if k % 3 == 1 { 0x3f } else if k % 3 == 2 { rng.next() as u8 } else { 0 }));
    }
    // payloads stuffed with preamble bytes / nested frames
    let inner = l3::make_frame(&[0xd3, 0x00, 0x00, 0xd3], 0);
    v.push(l3::make_frame(&inner, 0));
    v.push(l3::make_frame(&[0xd3; 40], 5));
    v
}

fn search_new(rng: &mut Rng, budget: u64) -> u64 {
    let mut n = 0u64;
    let mut chk = |s: &[u8], n: &mut u64| { *n += 1; if let Some(w) = l3::check_new(s) { found("new", s, &[], &w, *n); } };
    let frames = sample_frames(rng);
    for f in &frames {
        chk(f, &mut n);
        // suffixes
        for suf in [vec![0u8], vec![0xaa, 0x55], vec![0xd3, 0, 0], frames[3].clone()] { let mut g = f.clone(); g.extend_from_slice(&suf); chk(&g, &mut n); }
        // truncations
        for cut in 0..f.len().min(12) { chk(&f[..cut], &mut n); chk(&f[..f.len() - cut], &mut n); }
        // single bit flips (all for short frames, header+tail+sample for long)
        let nb = f.len() * 8;
        for b in 0..nb {
            if nb > 600 && b > 64 && b + 64 < nb && rng.below(37) != 0 { continue; }
            let mut g = f.clone(); g[b / 8] ^= 0x80 >> (b % 8); chk(&g, &mut n);
            let mut h = g.clone(); h.extend_from_slice(&[0x11, 0xd3, 0x22]); chk(&h, &mut n);
        }
        // whole-byte changes in the checksum and length field
        for pos in [1usize, 2, f.len() - 3, f.len() - 2, f.len() - 1] {
            for val in [0u8, 0xff, f[pos].wrapping_add(1), f[pos] ^ 0x80] { let mut g = f.clone(); g[pos] = val; g.extend_from_slice(&[0u8; 8]); chk(&g, &mut n); }
        }
    }
    while n < budget {
        let l = rng.below(40);
        let mut s = rng.bytes(l);
        if !s.is_empty() && rng.below(2) == 0 { s[0] = 0xd3; if l > 2 { s[1] &= 0xfc; s[2] = rng.below(12) as u8; } }
        chk(&s, &mut n);
    }
    n
}

fn random_stream(rng: &mut Rng, frames: &[Vec<u8>]) -> Vec<u8> {
    let mut s = vec![];
    let pieces = 1 + rng.below(6);
    for _ in 0..pieces {
        match rng.below(9) {
            0 => { let k = rng.below(9); s.extend(rng.bytes(k)); }
            1 => s.push(0xd3),
            2 => { s.extend_from_slice(&[0xd3, 0x00]); }
            3 => { let f = &frames[rng.below(frames.len())]; let cut = rng.below(f.len()); s.extend_from_slice(&f[..cut]); }
            4 => { let mut f = frames[rng.below(7)].clone(); let b = rng.below(f.len() * 8); f[b / 8] ^= 0x80 >> (b % 8); s.extend(f); }
            5 => { s.extend_from_slice(&[0xd3, 0x03, 0xff]); let k = rng.below(20); s.extend(rng.bytes(k)); }
            6 => { let k = rng.below(5); s.extend(std::iter::repeat(0x11u8).take(k)); }
            _ => { let f = &frames[rng.below(7)]; s.extend_from_slice(f); }
        }
    }
    s
}

fn search_scan(rng: &mut Rng, budget: u64, kind: &str) -> u64 {
    let frames = sample_frames(rng);
    let mut n = 0u64;
    // directed: short tails, garbage only, frame + garbage tail of every short length
    let mut directed: Vec<Vec<u8>> = vec![vec![], vec![0x11; 10], vec![0x55, 0xaa, 0xd3, 0x00], vec![0xd3], vec![0xd3; 7]];
    for t in 0..8 { let mut s = frames[4].clone(); s.extend(std::iter::repeat(0x22u8).take(t)); directed.push(s); }
    for f in &frames { directed.push(f.clone()); let mut s = vec![0x00, 0xd3, 0x00, 0x01]; s.extend_from_slice(f); s.extend_from_slice(f); directed.push(s); }
    let run = |s: &[u8], n: &mut u64| {
        *n += 1;
        let w = if kind == "iter" { l3::check_iter(s) } else { l3::check_scan(s) };
        if let Some(w) = w { found(kind, s, &[], &w, *n); }
    };
    for s in &directed { run(s, &mut n); }
    while n < budget { let s = random_stream(rng, &frames); run(&s, &mut n); }
    n
}

fn search_chunks(rng: &mut Rng, budget: u64) -> u64 {
    let frames = sample_frames(rng);
    let mut n = 0u64;
    let mut streams: Vec<Vec<u8>> = vec![];
    for r in [0u8, 0x3f, 0x15] {
        let mut s = l3::make_frame(&[0x3e, 0xd0, 1, 2, 3, 4, 5], r);
        s.extend(l3::make_frame(&[0x3e, 0xd1, 9], 0));
        streams.push(s);
    }
    for _ in 0..40 { streams.push(random_stream(rng, &frames)); }
    for s in &streams {
        if s.len() <= 64 {
            // every single cut and every pair of cuts
            for a in 0..=s.len() {
                n += 1; if let Some(w) = l3::check_chunks(s, &[a]) { found("chunks", s, &[a], &w, n); }
                for b in a..=s.len() { n += 1; if let Some(w) = l3::check_chunks(s, &[a, b]) { found("chunks", s, &[a, b], &w, n); } }
            }
            let ones: Vec<usize> = (1..s.len()).collect();
            n += 1; if let Some(w) = l3::check_chunks(s, &ones) { found("chunks", s, &ones, &w, n); }
        }
    }
    while n < budget {
        let s = random_stream(rng, &frames);
        let k = rng.below(5);
        let mut cuts: Vec<usize> = (0..k).map(|_| rng.below(s.len() + 1)).collect();
        cuts.sort();
        n += 1;
        if let Some(w) = l3::check_chunks(&s, &cuts) { found("chunks", &s, &cuts, &w, n); }
    }
    n
}

/// C04: corruptions of valid frames must be rejected and not delivered.
fn corrupt_check(f: &[u8], g: &[u8]) -> Option<String> {
    use rtcm_rs::prelude::*;
    if MessageFrame::new(g).is_ok() { return Some("corrupted frame accepted by MessageFrame::new".into()); }
    let (_, d) = next_msg_frame(g);
    if let Some(d) = d { if d.frame_data().len() == f.len() { return Some("corrupted frame delivered by the scanner".into()); } }
    None
}
fn search_corrupt(rng: &mut Rng, budget: u64) -> u64 {
    let frames = sample_frames(rng);
    let mut n = 0u64;
    for f in &frames {
        let nb = f.len() * 8;
        let allowed = |b: usize| b >= 8 && !(b >= 14 && b < 24); // not the preamble, not the 10 length bits
        for b in 0..nb { if !allowed(b) { continue; }
            if nb > 600 && b > 80 && b + 80 < nb && rng.below(17) != 0 { continue; }
            let mut g = f.to_vec(); g[b / 8] ^= 0x80 >> (b % 8); n += 1;
            if let Some(w) = corrupt_check(f, &g) { found("corrupt", &g, &[], &w, n); }
            // bursts starting here
            for bl in 2..=24usize { if b + bl > nb { break; } if !(b..b + bl).all(allowed) { continue; }
                if nb > 300 && rng.below(5) != 0 { continue; }
                let mut g = f.to_vec(); g[b / 8] ^= 0x80 >> (b % 8); let e = b + bl - 1; g[e / 8] ^= 0x80 >> (e % 8);
                for k in b + 1..e { if rng.below(2) == 0 { g[k / 8] ^= 0x80 >> (k % 8); } }
                n += 1; if let Some(w) = corrupt_check(f, &g) { found("corrupt", &g, &[], &w, n); }
            }
        }
        // pairs (all for short frames, sampled otherwise)
        let pairs = if nb <= 96 { 100000 } else { 3000 };
        for _ in 0..pairs.min(budget as usize) {
            let (a, b) = (rng.below(nb), rng.below(nb)); if a == b || !allowed(a) || !allowed(b) { continue; }
            let mut g = f.to_vec(); g[a / 8] ^= 0x80 >> (a % 8); g[b / 8] ^= 0x80 >> (b % 8); n += 1;
            if let Some(w) = corrupt_check(f, &g) { found("corrupt", &g, &[], &w, n); }
        }
    }
    n
}

fn main() {
    let a: Vec<String> = std::env::args().collect();
    std::panic::set_hook(Box::new(|_| {}));
    if a.len() >= 5 && a[1] == "search" {
        let seed: u64 = a[3].parse().unwrap_or(0);
        let budget: u64 = a[4].parse().unwrap_or(20000);
        let mut rng = Rng(0x9E3779B97F4A7C15 ^ (seed.wrapping_mul(0x2545F4914F6CDD1D)) | 1);
        let n = match a[2].as_str() {
            "new" => search_new(&mut rng, budget),
            "scan" => search_scan(&mut rng, budget, "scan"),
            "iter" => search_scan(&mut rng, budget, "iter"),
            "chunks" => search_chunks(&mut rng, budget),
            "corrupt" => search_corrupt(&mut rng, budget),
            "bias" => match msgs::bias_search(&mut rng, budget.min(20000)) { Ok(n) => n, Err((p, why)) => found("bias", &p, &[], &why, 0) },
            "text" => match text::search(&mut rng, budget.min(200000)) { Ok(n) => n, Err((p, why)) => found("text", &p, &[], &why, 0) },
            "msminvalid" => match msgs::msm_invalid_search(&mut rng, budget.min(20000)) { Ok(n) => n, Err((p, why)) => found("msminvalid", &p, &[], &why, 0) },
            "msmperm" => match msgs::msm_perm_search(&mut rng, budget.min(20000)) { Ok(n) => n, Err((p, why)) => found("msmperm", &p, &[], &why, 0) },
            "builder" => match msgs::builder_search(&mut rng, budget.min(4000)) { Ok(n) => n, Err((p, why)) => found("builder", &p, &[], &why, 0) },
            "classify" => match msgs::classify_search(&mut rng) { Ok(n) => n, Err((p, why)) => found("classify", &p, &[], &why, 0) },
            "biasq" => match msgs::biasq_search() { Ok(n) => n, Err((p, why)) => found("biasq", &p, &[], &why, 0) },
            "sigcmp" => match sig::search(&mut rng, budget) { Ok(n) => n, Err((p, why)) => found("sigcmp", &p, &[], &why, 0) },
            "msgs" => match msgs::search(&mut rng, budget) { Ok(n) => n, Err((p, why)) => found("msgs", &p, &[], &why, 0) },
            "lossless" | "quant" => {
                let only = a.get(5).cloned();
                let mut n = 0u64;
                for f in fields_gen::all() {
                    if let Some(o) = &only { if o != f.name { continue; } }
                    if a[2] == "lossless" {
                        match fields::search_lossless(&f, &mut rng, budget) {
                            Ok(k) => n += k,
                            Err((p, why)) => { println!("FOUND {{\"kind\":\"lossless\",\"field\":\"{}\",\"input_hex\":\"{:x}\",\"cuts\":[],\"observed\":{:?},\"evaluations\":{}}}", f.name, p, why, n); std::process::exit(0) }
                        }
                    } else {
                        match fields::search_quant(&f, &mut rng, budget) {
                            Ok(k) => n += k,
                            Err((x, why)) => { println!("FOUND {{\"kind\":\"quant\",\"field\":\"{}\",\"input_hex\":\"{:x}\",\"cuts\":[],\"observed\":{:?},\"evaluations\":{}}}", f.name, x.to_bits(), why, n); std::process::exit(0) }
                        }
                    }
                }
                n
            }
            k => { eprintln!("unknown kind {}", k); std::process::exit(2) }
        };
        println!("NONE evaluations={}", n);
    } else if a.len() >= 5 && a[1] == "rerun" && (a[2] == "lossless" || a[2] == "quant") {
        // replay rerun lossless <field> <pattern-hex> | replay rerun quant <field> <f64-bits-hex>
        let v = u64::from_str_radix(&a[4], 16).unwrap();
        for f in fields_gen::all() {
            if f.name != a[3] { continue; }
            let w = fields::width_of(&f).unwrap_or(0);
            let r = if a[2] == "lossless" { fields::check_pattern(&f, w, v) } else {
                let x = f64::from_bits(v);
                // neighbours from the decoder: search the two grid points around x by encoding and probing +-1
                let enc = (f.enc_f64)(x);
                match enc { Err(e) => Some(format!("in-range input {:e} rejected: {}", x, e)), Ok((_, out)) => {
                    let p = fields::bytes_pat(&out, w);
                    let top = if w >= 64 { u64::MAX } else { (1u64 << w) - 1 };
                    let val = |p: u64| match (f.dec)(&fields::pat_bytes(p & top, w)) { Ok((_, v, _)) => v, _ => None };
                    let mut res = None;
                    for (a_, b_) in [(p.wrapping_sub(1) & top, p), (p, p.wrapping_add(1) & top)] {
                        if let (Some(lo), Some(hi)) = (val(a_), val(b_)) { if lo <= x && x <= hi { res = fields::check_quant(&f, w, x, lo, hi); break; } }
                    }
                    if res.is_none() { if let Some(back) = val(p) { let step = (val(1).unwrap_or(1.0) - val(0).unwrap_or(0.0)).abs(); if (back - x).abs() > step * 0.5000011 + x.abs() * 4e-7 { res = Some(format!("input {:e} decodes back to {:e}: farther than half a step {:e}", x, back, step / 2.0)); } } }
                    res } }
            };
            match r { Some(w) => { println!("VIOLATED {}", w); std::process::exit(1) } None => { println!("HOLDS"); std::process::exit(0) } }
        }
        eprintln!("unknown field {}", a[3]); std::process::exit(2);
    } else if a.len() >= 4 && a[1] == "rerun" {
        let inp = unhex(&a[3]);
        let cuts: Vec<usize> = if a.len() > 4 && !a[4].is_empty() { a[4].split(',').filter_map(|x| x.trim().parse().ok()).collect() } else { vec![] };
        let w = match a[2].as_str() {
            "new" => l3::check_new(&inp),
            "scan" => l3::check_scan(&inp),
            "iter" => l3::check_iter(&inp),
            "chunks" => l3::check_chunks(&inp, &cuts),
            "msgs" => msgs::check_payload(&inp),
            "bias" => { let mut rng = Rng(0x1234567); msgs::bias_search(&mut rng, 3000).err().map(|e| e.1) }
            "text" => { let mut rng = Rng(0x1234567); text::search(&mut rng, 20000).err().map(|e| e.1) }
            "msminvalid" => { let mut rng = Rng(0x1234567); msgs::msm_invalid_search(&mut rng, 5000).err().map(|e| e.1) }
            "msmperm" => { let mut rng = Rng(0x1234567); msgs::msm_perm_search(&mut rng, 5000).err().map(|e| e.1) }
            "builder" => { let mut rng = Rng(0x1234567); msgs::builder_search(&mut rng, 2000).err().map(|e| e.1) }
            "classify" => { let mut rng = Rng(0x1234567); msgs::classify_search(&mut rng).err().map(|e| e.1) }
            "sigcmp" => sig::check(&inp),
            "biasq" => if inp.len() >= 6 { msgs::biasq_one(inp[0], i32::from_le_bytes([inp[1], inp[2], inp[3], inp[4]]), inp[5] as usize) } else { None },
            "corrupt" => { use rtcm_rs::prelude::*; if MessageFrame::new(&inp).is_ok() || next_msg_frame(&inp).1.is_some() { Some("corrupted frame accepted/delivered".to_string()) } else { None } }
            k => { eprintln!("unknown kind {}", k); std::process::exit(2) }
        };
        match w { Some(w) => { println!("VIOLATED {}", w); std::process::exit(1) } None => println!("HOLDS") }
    } else {
        eprintln!("usage: replay search <kind> <seed> <budget> | replay rerun <kind> <hex> [cuts]");
        std::process::exit(2);
    }
}
