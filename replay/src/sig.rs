//! Replay search kind `sigcmp` (C18): the public API of the seven `SigId` types against the relational part of the property that needs
//! no table: recognised descriptors compare before every unrecognised one, `cmp` is a consistent total order (antisymmetric, only equal
//! descriptors compare Equal, transitive) and `partial_cmp` agrees with `cmp` on recognised pairs.  (Positions need the private tables:
//! that part stays with the Verus obligations only.)
//! Input encoding for `rerun`: [constellation 0..=6, band a, attr a, band b, attr b, band c, attr c] (attributes up to U+00FF).
use core::cmp::Ordering;
use rtcm_rs::msg::{BdsSigId, GalSigId, GloSigId, GpsSigId, NavicSigId, QzssSigId, SbasSigId};

type D = (u8, u8);

struct Ops {
    valid: fn(D) -> bool,
    cmp: fn(D, D) -> Ordering,
    pcmp: fn(D, D) -> Option<Ordering>,
}

macro_rules! ops {
    ($t:ty) => {
        Ops {
            valid: |d| <$t>::new(d.0, d.1 as char).is_valid(),
            cmp: |a, b| <$t>::new(a.0, a.1 as char).cmp(&<$t>::new(b.0, b.1 as char)),
            pcmp: |a, b| <$t>::new(a.0, a.1 as char).partial_cmp(&<$t>::new(b.0, b.1 as char)),
        }
    };
}

fn all_ops() -> Vec<Ops> {
    vec![ops!(GpsSigId), ops!(GloSigId), ops!(GalSigId), ops!(SbasSigId), ops!(QzssSigId), ops!(BdsSigId), ops!(NavicSigId)]
}

fn domain() -> Vec<D> {
    let mut v = vec![];
    for b in (0u8..=16).chain([127u8, 255u8]) {
        for a in (0x20u8..=0x7e).chain([0x00u8, 0xa4, 0xe9, 0xff]) {
            v.push((b, a));
        }
    }
    v
}

fn pair(o: &Ops, a: D, b: D) -> Option<String> {
    let (c, r) = ((o.cmp)(a, b), (o.cmp)(b, a));
    if c != r.reverse() {
        return Some(format!("cmp not antisymmetric: {:?} vs {:?}: {:?} / {:?}", a, b, c, r));
    }
    if (c == Ordering::Equal) != (a == b) {
        return Some(format!("cmp Equal for different descriptors (or not Equal for the same one): {:?} {:?}: {:?}", a, b, c));
    }
    match ((o.valid)(a), (o.valid)(b)) {
        (true, false) if c != Ordering::Less => Some(format!("recognised {:?} does not sort before unrecognised {:?}: {:?}", a, b, c)),
        (false, true) if c != Ordering::Greater => Some(format!("unrecognised {:?} does not sort after recognised {:?}: {:?}", a, b, c)),
        (true, true) if (o.pcmp)(a, b) != Some(c) => Some(format!("partial_cmp disagrees with cmp on recognised {:?} {:?}", a, b)),
        _ => None,
    }
}

fn triple(o: &Ops, a: D, b: D, c: D) -> Option<String> {
    if (o.cmp)(a, b) != Ordering::Greater && (o.cmp)(b, c) != Ordering::Greater && (o.cmp)(a, c) == Ordering::Greater {
        return Some(format!("cmp not transitive: {:?} <= {:?} <= {:?} but first > third", a, b, c));
    }
    None
}

pub fn check(inp: &[u8]) -> Option<String> {
    if inp.len() < 7 || inp[0] as usize >= 7 {
        return None;
    }
    let o = &all_ops()[inp[0] as usize];
    let (a, b, c) = ((inp[1], inp[2]), (inp[3], inp[4]), (inp[5], inp[6]));
    pair(o, a, b).or_else(|| pair(o, b, c)).or_else(|| pair(o, a, c)).or_else(|| triple(o, a, b, c))
}

pub fn search(rng: &mut crate::Rng, budget: u64) -> Result<u64, (Vec<u8>, String)> {
    let dom = domain();
    let mut n = 0u64;
    for (k, o) in all_ops().iter().enumerate() {
        let valid: Vec<D> = dom.iter().copied().filter(|d| (o.valid)(*d)).collect();
        // every recognised descriptor against the whole domain, both ways (antisymmetry covers the mirrored call)
        for a in valid.iter().copied() {
            for b in dom.iter().copied() {
                n += 1;
                if let Some(w) = pair(o, a, b) {
                    return Err((vec![k as u8, a.0, a.1, b.0, b.1, b.0, b.1], w));
                }
            }
        }
        // all triples of recognised descriptors; sampled pairs and triples overall
        for a in valid.iter().copied() {
            for b in valid.iter().copied() {
                for c in valid.iter().copied() {
                    n += 1;
                    if let Some(w) = triple(o, a, b, c) {
                        return Err((vec![k as u8, a.0, a.1, b.0, b.1, c.0, c.1], w));
                    }
                }
            }
        }
        for _ in 0..budget.min(200000) {
            let pick = |rng: &mut crate::Rng| if rng.below(3) == 0 && !valid.is_empty() { valid[rng.below(valid.len())] } else { dom[rng.below(dom.len())] };
            let (a, b, c) = (pick(rng), pick(rng), pick(rng));
            n += 1;
            if let Some(w) = pair(o, a, b).or_else(|| triple(o, a, b, c)) {
                return Err((vec![k as u8, a.0, a.1, b.0, b.1, c.0, c.1], w));
            }
        }
    }
    Ok(n)
}
