// Unit tinyvec (C15, C10): the dependency contract that unit l2 only *assumes* of tinyvec::ArrayVec
// (contracts/l2_prelude.vt: new / len / capacity / push / as_slice / deref / deref_mut / set_len, len <= capacity),
// checked on the real tinyvec code (the version Cargo.lock resolves) both directly and through the crate's real
// wrapper util::DataVec.  Instantiation [u16; 4] (bounded in the element type and capacity: the code is generic in both).
use crate::tinyvec::ArrayVec;
use crate::util::DataVec;

const CAP: usize = 4;

// an arbitrary reachable vector together with its abstract view (model[..n])
fn any_av() -> (ArrayVec<[u16; CAP]>, [u16; CAP], usize) {
    let model: [u16; CAP] = kani::any();
    let n: usize = kani::any();
    kani::assume(n <= CAP);
    let mut v: ArrayVec<[u16; CAP]> = ArrayVec::new();
    assert!(v.len() == 0, "tinyvec.new_is_empty");
    let mut i = 0;
    while i < n {
        v.push(model[i]);
        i += 1;
    }
    (v, model, n)
}

#[kani::proof]
#[kani::unwind(6)]
fn tinyvec_observers_agree_with_view() {
    let (v, model, n) = any_av();
    assert!(v.len() == n, "tinyvec.len_is_view_len");
    assert!(v.len() <= v.capacity(), "tinyvec.len_le_capacity");
    assert!(v.capacity() == CAP, "tinyvec.capacity_is_array_len");
    let s = v.as_slice();
    assert!(s.len() == n, "tinyvec.as_slice_len");
    let d: &[u16] = &v;
    assert!(d.len() == n, "tinyvec.deref_len");
    kani::cover!(n == CAP, "tinyvec.reach.full");
    kani::cover!(n == 0, "tinyvec.reach.empty");
    let k: usize = kani::any();
    kani::assume(k < n);
    assert!(s[k] == model[k], "tinyvec.as_slice_is_view");
    assert!(d[k] == model[k], "tinyvec.deref_is_view");
}

#[kani::proof]
#[kani::unwind(6)]
fn tinyvec_push_appends() {
    let (mut v, model, n) = any_av();
    kani::assume(n < CAP);
    let x: u16 = kani::any();
    v.push(x);
    assert!(v.len() == n + 1, "tinyvec.push_len");
    assert!(v.as_slice()[n] == x, "tinyvec.push_last");
    let k: usize = kani::any();
    kani::assume(k < n);
    assert!(v.as_slice()[k] == model[k], "tinyvec.push_keeps_prefix");
}

#[kani::proof]
#[kani::unwind(6)]
fn tinyvec_deref_mut_writes_through() {
    let (mut v, model, n) = any_av();
    let j: usize = kani::any();
    kani::assume(j < n);
    let x: u16 = kani::any();
    {
        let m: &mut [u16] = &mut v;
        assert!(m.len() == n, "tinyvec.deref_mut_len");
        assert!(m[j] == model[j], "tinyvec.deref_mut_is_view");
        m[j] = x;
    }
    assert!(v.len() == n, "tinyvec.deref_mut_keeps_len");
    let k: usize = kani::any();
    kani::assume(k < n);
    assert!(v.as_slice()[k] == if k == j { x } else { model[k] }, "tinyvec.deref_mut_final_view");
}

#[kani::proof]
#[kani::unwind(6)]
fn tinyvec_set_len_sets_len() {
    let (mut v, _model, _n) = any_av();
    let m: usize = kani::any();
    kani::assume(m <= CAP);
    v.set_len(m);
    assert!(v.len() == m, "tinyvec.set_len");
    assert!(v.as_slice().len() == m, "tinyvec.set_len_slice");
}

#[kani::proof]
#[kani::unwind(6)]
fn datavec_wrapper_agrees() {
    // the crate's wrapper (src/util/data_vec.rs) over the same operations, incl. the derived Clone the row encoders rely on
    let model: [u16; CAP] = kani::any();
    let n: usize = kani::any();
    kani::assume(n <= CAP);
    let mut v: DataVec<u16, CAP> = DataVec::new();
    assert!(v.len() == 0, "datavec.new_is_empty");
    let mut i = 0;
    while i < n {
        v.push(model[i]);
        i += 1;
    }
    assert!(v.len() == n && v.capacity() == CAP, "datavec.len_capacity");
    let c = v.clone();
    assert!(c.len() == n, "datavec.clone_len");
    let k: usize = kani::any();
    kani::assume(k < n);
    assert!(v.as_slice()[k] == model[k], "datavec.as_slice_is_view");
    assert!(c.as_slice()[k] == model[k], "datavec.clone_same_contents");
    let x: u16 = kani::any();
    v.as_mut_slice()[k] = x;
    assert!(v.as_slice()[k] == x && v.len() == n, "datavec.as_mut_slice_writes_through");
    let m: usize = kani::any();
    kani::assume(m <= CAP);
    v.set_len(m);
    assert!(v.len() == m, "datavec.set_len");
}
