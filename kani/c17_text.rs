// Engine K, unit text (C17): descriptor strings (ISO 8859-1) and UTF-8 text fields, through their public API.
use crate::util::{ArrayString, Df88591String};
use crate::df::assembler::Assembler;
use crate::df::parser::Parser;
use crate::rtcm_error::RtcmError;

fn latin1(c: char) -> u8 { let k = c as u32; if k >= 1 && k <= 255 { k as u8 } else { 0xa4 } }

// every char: stored byte and the character read back   (complete: all 0x110000 - surrogates values of `char`)
#[kani::proof]
fn t_df88591_push_char_all_chars() {
    let c: char = kani::any();
    let mut s = Df88591String::<7>::new();
    s.push_char(c);
    assert!(s.len() == 1);
    let b = *s.iter().next().unwrap();
    assert!(b == latin1(c), "text.descriptor.char_to_byte");                                    // text.descriptor.char_to_byte
    let back = s.chars().next().unwrap();
    assert!(back as u32 == b as u32, "text.descriptor.byte_to_char");                           // text.descriptor.byte_to_char  (b is never 0 here)
    // try_push agrees and respects the capacity
    let mut t = Df88591String::<7>::new();
    assert!(t.try_push(c).is_ok());
    assert!(*t.iter().next().unwrap() == latin1(c));
}

// every byte pushed raw (the decoder's path): NUL becomes 0xA4, everything else is kept; chars() maps back
#[kani::proof]
fn t_df88591_push_all_bytes() {
    let v: u8 = kani::any();
    let mut s = Df88591String::<7>::new();
    s.push(v);
    let b = *s.iter().next().unwrap();
    assert!(b == if v == 0 { 0xa4 } else { v }, "text.descriptor.push_nul_placeholder");                // text.descriptor.push_nul_placeholder
    assert!(s.chars().next().unwrap() as u32 == b as u32);
}

// conversion keeps the first N characters (bounded: K = 9 symbolic chars into N = 7)
#[kani::proof]
#[kani::unwind(11)]
fn t_df88591_collect_keeps_first_n() {
    let cs: [char; 9] = kani::any();
    let k: usize = kani::any();
    kani::assume(k <= 9);
    let s: Df88591String<7> = cs[..k].iter().copied().collect();
    let want = if k < 7 { k } else { 7 };
    assert!(s.len() == want, "text.descriptor.keeps_first_n");                                   // text.descriptor.keeps_first_n
    let i: usize = kani::any();
    kani::assume(i < want);
    let mut it = s.iter();
    let mut j = 0; let mut b = 0u8;
    while j <= i { b = *it.next().unwrap(); j += 1; }
    assert!(b == latin1(cs[i]), "text.descriptor.maps_each_char");                                // text.descriptor.maps_each_char
    // full: one more is refused
    let mut t = s.clone();
    if want == 7 { assert!(t.try_push('x').is_err()); assert!(t.len() == 7); }
}

fn utf8_len(c: char) -> usize { let k = c as u32; if k < 0x80 { 1 } else if k < 0x800 { 2 } else if k < 0x10000 { 3 } else { 4 } }

// UTF-8 text: pushing any char at any fill level appends exactly its UTF-8 bytes or refuses, and the content stays valid UTF-8
// (complete over all chars x all fill levels 0..=7 of a capacity-7 buffer)
#[kani::proof]
#[kani::unwind(9)]
fn t_arraystring_try_push_all_chars() {
    let fill: usize = kani::any();
    kani::assume(fill <= 7);
    let mut s = ArrayString::<7>::new();
    let mut i = 0;
    while i < fill { assert!(s.try_push('a').is_ok()); i += 1; }
    let c: char = kani::any();
    let before = s.len();
    assert!(before == fill);
    let rc = s.try_push(c);
    assert!(rc.is_ok() == (before + utf8_len(c) <= 7), "text.utf8.capacity_by_bytes");         // text.utf8.capacity_by_bytes
    assert!(s.len() == before + if rc.is_ok() { utf8_len(c) } else { 0 }, "text.utf8.refused_push_changes_nothing");   // text.utf8.refused_push_changes_nothing
}

// thorough tier: the bytes stay valid UTF-8 (Deref = from_utf8(..).unwrap() must not panic) and the char reads back
#[kani::proof]
#[kani::unwind(9)]
fn t_arraystring_always_valid_utf8() {
    let fill: usize = kani::any();
    kani::assume(fill <= 7);
    let mut s = ArrayString::<7>::new();
    let mut i = 0;
    while i < fill { assert!(s.try_push('a').is_ok()); i += 1; }
    let c: char = kani::any();
    let rc = s.try_push(c);
    let st: &str = &s;
    assert!(st.len() == s.len(), "text.utf8.always_valid");                               // text.utf8.always_valid
    if rc.is_ok() { assert!(st.chars().last() == Some(c)); }    // text.utf8.round_trips_chars
}

// FromIterator / From<&str> keep the longest prefix of whole characters that fits (bounded: 3 symbolic chars, N = 7)
#[kani::proof]
#[kani::unwind(9)]
fn t_arraystring_collect_longest_prefix() {
    let cs: [char; 3] = kani::any();
    let s: ArrayString<7> = cs.iter().copied().collect();
    let (l0, l1, l2) = (utf8_len(cs[0]), utf8_len(cs[1]), utf8_len(cs[2]));
    let total = if l0 + l1 > 7 { l0 } else if l0 + l1 + l2 > 7 { l0 + l1 } else { l0 + l1 + l2 };
    assert!(s.len() == total, "text.utf8.longest_fitting_prefix");                                  // text.utf8.longest_fitting_prefix
}
