// Unit crcstep (C03, C04): the dependency contract that unit frame only *assumes* of crc-any
//   crc24lte_a() starts from the empty view, digest appends, get_crc() == crc24q(view)
// checked on the real crc-any code (the version Cargo.lock resolves) against the same bit-serial CRC-24Q reference as
// contracts/crc_defs.vt (generator 0x1864CFB, zero initial value, no reflection, MSB first).
//
// Four symbolic bytes from the zero register: the first three reach every one of the 2^24 register states (the map
// bytes -> register is a linear bijection), the fourth is then a byte step from an arbitrary state.  So the per-byte
// step of the table-driven implementation equals the reference step for every (state, byte) pair - complete for the
// step; that digest over a longer slice is the left fold of that step (its `for` loop) is checked here up to 4 bytes only (bounded in that one dimension; the fold over longer slices stays assumed).
use crc_any::CRC;

fn ref_bit(s: u32, b: bool) -> u32 {
    let top = ((s >> 23) & 1) == 1;
    let sh = (s << 1) & 0xFF_FFFF;
    if top != b { sh ^ 0x86_4CFB } else { sh }
}

fn ref_byte(s: u32, byte: u8) -> u32 {
    let mut p = s;
    let mut k: u8 = 1;
    while k <= 8 {
        p = ref_bit(p, ((byte >> (8 - k)) & 1) == 1);
        k += 1;
    }
    p
}

#[kani::proof]
#[kani::unwind(10)]
fn crcstep_every_state_every_byte() {
    let b: [u8; 4] = kani::any();
    let r3 = ref_byte(ref_byte(ref_byte(0, b[0]), b[1]), b[2]);
    let mut c = CRC::crc24lte_a();
    assert!(c.get_crc() == 0, "crcdep.init_is_zero");
    c.digest(&b[0..3]);
    assert!(c.get_crc() == r3 as u64, "crcdep.three_bytes_reach_state");
    c.digest(&b[3..4]);
    assert!(c.get_crc() == ref_byte(r3, b[3]) as u64, "crcdep.byte_step_is_crc24q_step");
    kani::cover!(r3 == 0x00_0001, "crcdep.reach.state_one");
    kani::cover!(r3 == 0xFF_FFFF, "crcdep.reach.state_all_ones");
}

#[kani::proof]
#[kani::unwind(10)]
fn crcstep_digest_whole_slice() {
    // one call over four bytes (the `&[u8]` form MessageFrame::new uses) == the reference fold
    let b: [u8; 4] = kani::any();
    let mut whole = CRC::crc24lte_a();
    whole.digest(&b[..]);
    let want = ref_byte(ref_byte(ref_byte(ref_byte(0, b[0]), b[1]), b[2]), b[3]);
    assert!(whole.get_crc() == want as u64, "crcdep.digest_is_left_fold_up_to_4");
    assert!(whole.get_crc() < (1u64 << 24), "crcdep.result_fits_24_bits");
}

#[kani::proof]
#[kani::unwind(10)]
fn crcstep_digest_splits_anywhere() {
    // thorough tier (about 200 s): one call over four bytes == two calls split at a symbolic position
    let b: [u8; 4] = kani::any();
    let k: usize = kani::any();
    kani::assume(k <= 4);
    let mut whole = CRC::crc24lte_a();
    whole.digest(&b[..]);
    let mut split = CRC::crc24lte_a();
    split.digest(&b[..k]);
    split.digest(&b[k..]);
    assert!(whole.get_crc() == split.get_crc(), "crcdep.digest_splits");
}

#[kani::proof]
fn crcstep_reference_surjective_witness() {
    // the reference step itself is not the constant function (vacuity guard for the equalities above)
    let s: u32 = kani::any();
    kani::assume(s < (1 << 24));
    let b: u8 = kani::any();
    kani::cover!(ref_bit(s, false) != ref_bit(s, true), "crcdep.reach.bit_matters");
    assert!(ref_bit(s, b & 1 == 1) < (1 << 24), "crcdep.ref_stays_24_bits");
}

#[kani::proof]
#[kani::unwind(10)]
fn crcstep_three_bytes_injective() {
    // 2^24 three-byte prefixes, 2^24 register states, injective => every state is reached in the first harness
    let a: [u8; 3] = kani::any();
    let b: [u8; 3] = kani::any();
    let ra = ref_byte(ref_byte(ref_byte(0, a[0]), a[1]), a[2]);
    let rb = ref_byte(ref_byte(ref_byte(0, b[0]), b[1]), b[2]);
    kani::assume(ra == rb);
    assert!(a[0] == b[0] && a[1] == b[1] && a[2] == b[2], "crcdep.three_byte_prefix_injective");
    assert!(ra < (1 << 24), "crcdep.ref_state_24_bits");
}
