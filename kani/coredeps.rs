// Unit coredeps (C18): the assumed specification of `<char as Ord>::cmp` in unit sigtab (contracts/l2_prelude.vt, tools/unit_sigtab.py):
// the comparison of two chars is the comparison of their code points - checked on the compiled standard library for every pair of chars.
use core::cmp::Ordering;

fn ord3(a: u32, b: u32) -> Ordering {
    if a < b { Ordering::Less } else if a == b { Ordering::Equal } else { Ordering::Greater }
}

#[kani::proof]
fn coredeps_char_cmp_is_code_point_order() {
    let a: char = kani::any();
    let b: char = kani::any();
    assert!(a.cmp(&b) == ord3(a as u32, b as u32), "coredep.char_cmp_is_code_point_order");
    assert!((a == b) == (a as u32 == b as u32), "coredep.char_eq_is_code_point_eq");
    kani::cover!(a < b, "coredep.reach.less");
    kani::cover!(a > b, "coredep.reach.greater");
}

#[kani::proof]
fn coredeps_u8_cmp_is_integer_order() {
    // the tie-break and the position comparison of SigId::cmp go through <u8 as Ord>::cmp (Verus knows it natively; checked for symmetry of the argument)
    let a: u8 = kani::any();
    let b: u8 = kani::any();
    assert!(a.cmp(&b) == ord3(a as u32, b as u32), "coredep.u8_cmp_is_integer_order");
}
