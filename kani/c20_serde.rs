// Engine K, unit serde (C20, bounded): the hand-written Serialize/Deserialize of Df88591String<N> and ArrayString<N>
// through a minimal capturing serializer (only serialize_str / deserialize_str carry data for these impls).
use crate::util::{ArrayString, Df88591String};
use sd::ser::Impossible;
use sd::{Deserialize, Serialize};

#[derive(Debug)]
struct E;
impl core::fmt::Display for E { fn fmt(&self, _f: &mut core::fmt::Formatter<'_>) -> core::fmt::Result { Ok(()) } }
impl sd::ser::StdError for E {}
impl sd::ser::Error for E { fn custom<T: core::fmt::Display>(_m: T) -> Self { E } }
impl sd::de::Error for E { fn custom<T: core::fmt::Display>(_m: T) -> Self { E } }

struct Cap<'b> { buf: &'b mut [u8; 16], len: &'b mut usize }
macro_rules! no { ($($f:ident($($t:ty),*))*) => { $( fn $f(self $(, _: $t)*) -> Result<(), E> { Err(E) } )* } }
impl<'b> sd::Serializer for Cap<'b> {
    type Ok = (); type Error = E;
    type SerializeSeq = Impossible<(), E>; type SerializeTuple = Impossible<(), E>; type SerializeTupleStruct = Impossible<(), E>;
    type SerializeTupleVariant = Impossible<(), E>; type SerializeMap = Impossible<(), E>; type SerializeStruct = Impossible<(), E>;
    type SerializeStructVariant = Impossible<(), E>;
    fn serialize_str(self, v: &str) -> Result<(), E> {
        let b = v.as_bytes();
        if b.len() > 16 { return Err(E); }
        let mut i = 0; while i < b.len() { self.buf[i] = b[i]; i += 1; }
        *self.len = b.len();
        Ok(())
    }
    no! { serialize_bool(bool) serialize_i8(i8) serialize_i16(i16) serialize_i32(i32) serialize_i64(i64) serialize_u8(u8) serialize_u16(u16)
          serialize_u32(u32) serialize_u64(u64) serialize_f32(f32) serialize_f64(f64) serialize_char(char) serialize_bytes(&[u8]) serialize_none()
          serialize_unit() serialize_unit_struct(&'static str) serialize_unit_variant(&'static str, u32, &'static str) }
    fn collect_str<T: ?Sized + core::fmt::Display>(self, _: &T) -> Result<(), E> { Err(E) }
    fn serialize_some<T: ?Sized + Serialize>(self, _: &T) -> Result<(), E> { Err(E) }
    fn serialize_newtype_struct<T: ?Sized + Serialize>(self, _: &'static str, _: &T) -> Result<(), E> { Err(E) }
    fn serialize_newtype_variant<T: ?Sized + Serialize>(self, _: &'static str, _: u32, _: &'static str, _: &T) -> Result<(), E> { Err(E) }
    fn serialize_seq(self, _: Option<usize>) -> Result<Self::SerializeSeq, E> { Err(E) }
    fn serialize_tuple(self, _: usize) -> Result<Self::SerializeTuple, E> { Err(E) }
    fn serialize_tuple_struct(self, _: &'static str, _: usize) -> Result<Self::SerializeTupleStruct, E> { Err(E) }
    fn serialize_tuple_variant(self, _: &'static str, _: u32, _: &'static str, _: usize) -> Result<Self::SerializeTupleVariant, E> { Err(E) }
    fn serialize_map(self, _: Option<usize>) -> Result<Self::SerializeMap, E> { Err(E) }
    fn serialize_struct(self, _: &'static str, _: usize) -> Result<Self::SerializeStruct, E> { Err(E) }
    fn serialize_struct_variant(self, _: &'static str, _: u32, _: &'static str, _: usize) -> Result<Self::SerializeStructVariant, E> { Err(E) }
}
struct StrDe<'a>(&'a str);
impl<'de, 'a> sd::Deserializer<'de> for StrDe<'a> {
    type Error = E;
    fn deserialize_any<V: sd::de::Visitor<'de>>(self, visitor: V) -> Result<V::Value, E> { visitor.visit_str(self.0) }
    sd::forward_to_deserialize_any! { bool i8 i16 i32 i64 i128 u8 u16 u32 u64 u128 f32 f64 char str string bytes byte_buf option unit unit_struct newtype_struct seq tuple tuple_struct map struct enum identifier ignored_any }
}

fn utf8_len_latin1(b: u8) -> usize { if b < 0x80 { 1 } else { 2 } }

// descriptor string, capacity 3 (the impls are generic in N): every content, serialise then deserialise gives the same string
#[kani::proof]
#[kani::unwind(18)]
fn s_df88591_roundtrip() {
    let bytes: [u8; 3] = kani::any();
    let n: usize = kani::any();
    kani::assume(n <= 3);
    let mut s = Df88591String::<3>::new();
    let mut i = 0; let mut u = 0usize;
    while i < n { s.push(bytes[i]); u += utf8_len_latin1(if bytes[i] == 0 { 0xa4 } else { bytes[i] }); i += 1; }
    @CARVE_DF@
    let mut buf = [0u8; 16]; let mut len = 0usize;
    let r = s.serialize(Cap { buf: &mut buf, len: &mut len });
    assert!(r.is_ok());
    let st = core::str::from_utf8(&buf[..len]).unwrap();
    let back = Df88591String::<3>::deserialize(StrDe(st));
    assert!(matches!(back, Ok(ref b) if *b == s));              // serde.descriptor.roundtrip
}

// UTF-8 text field, capacity 4: every content reachable through try_push
#[kani::proof]
#[kani::unwind(18)]
fn s_arraystring_roundtrip() {
    let a: char = kani::any();
    let b: char = kani::any();
    let mut s = ArrayString::<4>::new();
    let _ = s.try_push(a);
    let _ = s.try_push(b);
    let mut buf = [0u8; 16]; let mut len = 0usize;
    let r = s.serialize(Cap { buf: &mut buf, len: &mut len });
    assert!(r.is_ok());
    let st = core::str::from_utf8(&buf[..len]).unwrap();
    let back = ArrayString::<4>::deserialize(StrDe(st));
    assert!(matches!(back, Ok(ref x) if *x == s));              // serde.text.roundtrip
}
